//! `c12frame` → `Generated/C12Frame.lean`: WHERE the machine-code generator puts
//! the memory that the LIR model of property C12 treats as memory of one
//! activation (`Exec.resolve`: a stack slot named by call `i` is memory of call
//! `i`, fresh per activation). Read from `src/codegen/` on every run:
//!
//!  * `ModuleBuilder::define_function`: the `match` over `lir::ValueOrSlot`
//!    inside the loop over the item's `variables` — for every arm the class of
//!    variable (`Val` / `StackSlot`), whether the arm is guarded, and the
//!    storage operations of guard + body (`create_sized_stack_slot` of kind
//!    `ExplicitSlot`, another kind of stack slot, a data object of the module,
//!    the address of a data object, any other memory / call operation);
//!    the storage operations of `define_function` outside that match;
//!  * `FuncGen::entry_block`: the operations of the loop over `stack_slots`
//!    (where the address of every slot variable is materialised: `stack_addr`),
//!    the element type of that parameter, and the storage operations of the
//!    rest of `entry_block` (instructions of the block are translated by
//!    `FuncGen::instruction`, covered by target `c12instr`);
//!  * every data object the code generator declares in the JIT module
//!    (`declare_anonymous_data(writable, tls)` / `declare_data(_, _, writable,
//!    tls)` anywhere under `src/codegen/`): the function it is in and its
//!    `writable` / `tls` arguments (`none` when not a literal);
//!  * the storage operations of every `FuncGen::instruction` arm (per kind), so
//!    that a kind that starts to use module-level storage is seen even when its
//!    loads / stores / copies stay the same.
//!
//!  * the host side of a call, `RotoFunc::invoke` (`macro_rules! func` of
//!    `src/codegen/check.rs`, token scan): the return pointer handed to the
//!    compiled function is `as_mut_ptr()` of a `let`-bound
//!    `MaybeUninit::uninit()` local of that body (the host's return buffer is
//!    in the frame of the host's call), and the body has no `static`,
//!    `thread_local`, leaked or raw allocation.
//!
//! A method whose name looks like a memory / storage operation and is not
//! classified is an extraction failure. `#[cfg(feature = "verif-hooks")]` items
//! and statements are skipped.
use crate::find;
use quote::ToTokens;
use std::collections::BTreeMap;
use std::path::{Path, PathBuf};
use syn::visit::Visit;

const STORAGE_OPS: &[(&str, &str)] = &[
    ("stack_addr", ".stackAddr"),
    ("declare_anonymous_data", ".dataObject"),
    ("declare_data", ".dataObject"),
    ("global_value", ".dataAddr"),
    ("symbol_value", ".dataAddr"),
    ("tls_value", ".dataAddr"),
    ("store", ".memOp"),
    ("load", ".memOp"),
    ("stack_store", ".memOp"),
    ("stack_load", ".memOp"),
    ("emit_small_memory_copy", ".memOp"),
    ("call_memcpy", ".memOp"),
    ("call_memset", ".memOp"),
    ("call_memmove", ".memOp"),
    ("call", ".memOp"),
    ("call_indirect", ".memOp"),
];

/// names that look like storage / memory operations
const SUSPICIOUS: &[&str] = &["store", "load", "mem", "atomic", "call", "stack", "write", "copy", "data", "global", "alloc", "leak", "tls"];

/// compile-time bookkeeping, not storage
const BENIGN: &[&str] = &[
    "declare_data_in_func", "define_data", "define", "define_zeroinit", "set_align", "into_boxed_slice", "into_bytes",
    "frontend_config", "finalize_definitions", "get_finalized_data", "write_str", "write_fmt",
];

struct St<'a> {
    out: Vec<&'static str>,
    err: Option<String>,
    /// token text of a sub-expression not to descend into
    skip: Option<String>,
    /// methods of the type whose method is inspected: a call on `self` is followed
    helpers: &'a BTreeMap<String, syn::Block>,
    depth: usize,
    /// `let <name> = <init>;` seen so far (token text of the initialiser): an argument that is a
    /// plain local is read through its binding (`let data = StackSlotData::new(ExplicitSlot, ..)`)
    locals: BTreeMap<String, String>,
}

/// methods that translate the instructions of a block (covered per kind by `instrStorage` / target `c12instr`)
const NOT_FOLLOWED: &[&str] = &["instruction", "block", "entry_block", "define_function"];

fn hook_attr(attrs: &[syn::Attribute]) -> bool {
    attrs.iter().any(|a| a.to_token_stream().to_string().contains("verif-hooks"))
}

impl<'ast> Visit<'ast> for St<'_> {
    fn visit_expr(&mut self, e: &'ast syn::Expr) {
        if let Some(s) = &self.skip {
            if matches!(e, syn::Expr::Match(_) | syn::Expr::ForLoop(_)) && &e.to_token_stream().to_string() == s {
                return;
            }
        }
        syn::visit::visit_expr(self, e);
    }
    fn visit_expr_method_call(&mut self, m: &'ast syn::ExprMethodCall) {
        syn::visit::visit_expr_method_call(self, m);
        let name = m.method.to_string();
        let recv = m.receiver.to_token_stream().to_string();
        if (recv == "self" || recv == "func_gen") && !NOT_FOLLOWED.contains(&name.as_str()) {
            if let Some(b) = self.helpers.get(&name) {
                if self.depth > 4 {
                    self.err = Some(format!("helper recursion too deep at {name}"));
                    return;
                }
                self.depth += 1;
                let b = b.clone();
                let skip = self.skip.take();
                self.visit_block(&b);
                self.skip = skip;
                self.depth -= 1;
                return;
            }
        }
        if name == "create_sized_stack_slot" {
            let mut args = m.args.to_token_stream().to_string();
            if let Some(init) = self.locals.get(args.trim()) {
                args = init.clone();
            }
            self.out.push(if args.contains("ExplicitSlot") { ".stackSlot" } else { ".stackSlotOther" });
        } else if name.contains("stack_slot") {
            self.out.push(".stackSlotOther");
        } else if let Some((_, l)) = STORAGE_OPS.iter().find(|(n, _)| *n == name) {
            self.out.push(l);
        } else if !BENIGN.contains(&name.as_str()) && SUSPICIOUS.iter().any(|s| name.contains(s)) {
            self.err = Some(format!("method `{name}` looks like a storage / memory operation and is not classified"));
        }
    }
    fn visit_expr_call(&mut self, c: &'ast syn::ExprCall) {
        syn::visit::visit_expr_call(self, c);
        let f = c.func.to_token_stream().to_string().replace(' ', "");
        if f.contains("alloc") || f.contains("leak") || f.contains("ptr::") || f.contains("transmute") {
            self.err = Some(format!("function `{f}` looks like a storage operation and is not classified"));
        }
    }
    fn visit_stmt(&mut self, s: &'ast syn::Stmt) {
        if let syn::Stmt::Local(l) = s {
            if hook_attr(&l.attrs) {
                return;
            }
            if let (syn::Pat::Ident(pi), Some(init)) = (&l.pat, &l.init) {
                self.locals.insert(pi.ident.to_string(), init.expr.to_token_stream().to_string());
            }
        }
        syn::visit::visit_stmt(self, s);
    }
    fn visit_expr_block(&mut self, b: &'ast syn::ExprBlock) {
        if hook_attr(&b.attrs) {
            return;
        }
        syn::visit::visit_expr_block(self, b);
    }
}

type Helpers = BTreeMap<String, syn::Block>;

fn methods_of(file: &syn::File, ty_prefix: &str) -> Helpers {
    let mut h = BTreeMap::new();
    for it in &file.items {
        if let syn::Item::Impl(i) = it {
            let ty = i.self_ty.to_token_stream().to_string().replace(' ', "");
            if i.trait_.is_none() && ty.starts_with(ty_prefix) {
                for ii in &i.items {
                    if let syn::ImplItem::Fn(f) = ii {
                        if !hook_attr(&f.attrs) {
                            h.insert(f.sig.ident.to_string(), f.block.clone());
                        }
                    }
                }
            }
        }
    }
    h
}

fn ops_of_expr(e: &syn::Expr, skip: Option<String>, helpers: &Helpers) -> Result<Vec<&'static str>, String> {
    let mut v = St { out: vec![], err: None, skip, helpers, depth: 0, locals: BTreeMap::new() };
    v.visit_expr(e);
    match v.err {
        Some(e) => Err(e),
        None => Ok(v.out),
    }
}

fn ops_of_block(b: &syn::Block, skip: Option<String>, helpers: &Helpers) -> Result<Vec<&'static str>, String> {
    let mut v = St { out: vec![], err: None, skip, helpers, depth: 0, locals: BTreeMap::new() };
    v.visit_block(b);
    match v.err {
        Some(e) => Err(e),
        None => Ok(v.out),
    }
}

struct Loops {
    over: String,
    found: Vec<syn::ExprForLoop>,
}
impl<'ast> Visit<'ast> for Loops {
    fn visit_expr_for_loop(&mut self, l: &'ast syn::ExprForLoop) {
        if l.expr.to_token_stream().to_string().replace(' ', "") == self.over {
            self.found.push(l.clone());
        }
        syn::visit::visit_expr_for_loop(self, l);
    }
}

fn loops_over(b: &syn::Block, over: &str) -> Vec<syn::ExprForLoop> {
    let mut l = Loops { over: over.to_string(), found: vec![] };
    l.visit_block(b);
    l.found
}

struct AllMatches(Vec<syn::ExprMatch>);
impl<'ast> Visit<'ast> for AllMatches {
    fn visit_expr_match(&mut self, m: &'ast syn::ExprMatch) {
        self.0.push(m.clone());
        syn::visit::visit_expr_match(self, m);
    }
}

fn pat_head(p: &syn::Pat) -> Option<String> {
    let path = match p {
        syn::Pat::Struct(s) => &s.path,
        syn::Pat::TupleStruct(s) => &s.path,
        syn::Pat::Path(s) => &s.path,
        _ => return None,
    };
    Some(path.to_token_stream().to_string().replace(' ', ""))
}

struct DataObjs {
    cur_fn: Vec<String>,
    out: Vec<(String, String, String)>,
}

fn lit_bool(e: Option<&syn::Expr>) -> &'static str {
    match e.map(|e| e.to_token_stream().to_string()) {
        Some(s) if s == "true" => "some true",
        Some(s) if s == "false" => "some false",
        _ => "none",
    }
}

impl<'ast> Visit<'ast> for DataObjs {
    fn visit_impl_item_fn(&mut self, f: &'ast syn::ImplItemFn) {
        if hook_attr(&f.attrs) {
            return;
        }
        self.cur_fn.push(f.sig.ident.to_string());
        syn::visit::visit_impl_item_fn(self, f);
        self.cur_fn.pop();
    }
    fn visit_item_fn(&mut self, f: &'ast syn::ItemFn) {
        if hook_attr(&f.attrs) {
            return;
        }
        self.cur_fn.push(f.sig.ident.to_string());
        syn::visit::visit_item_fn(self, f);
        self.cur_fn.pop();
    }
    fn visit_item_mod(&mut self, m: &'ast syn::ItemMod) {
        if hook_attr(&m.attrs) {
            return;
        }
        syn::visit::visit_item_mod(self, m);
    }
    fn visit_expr_method_call(&mut self, m: &'ast syn::ExprMethodCall) {
        syn::visit::visit_expr_method_call(self, m);
        let name = m.method.to_string();
        let f = self.cur_fn.last().cloned().unwrap_or_default();
        let args: Vec<&syn::Expr> = m.args.iter().collect();
        if name == "declare_anonymous_data" {
            self.out.push((f, lit_bool(args.first().copied()).into(), lit_bool(args.get(1).copied()).into()));
        } else if name == "declare_data" {
            self.out.push((f, lit_bool(args.get(2).copied()).into(), lit_bool(args.get(3).copied()).into()));
        }
    }
}

fn flatten_tokens(ts: proc_macro2::TokenStream, out: &mut Vec<String>) {
    for t in ts {
        match t {
            proc_macro2::TokenTree::Group(g) => {
                let (o, c) = match g.delimiter() {
                    proc_macro2::Delimiter::Parenthesis => ("(", ")"),
                    proc_macro2::Delimiter::Brace => ("{", "}"),
                    proc_macro2::Delimiter::Bracket => ("[", "]"),
                    proc_macro2::Delimiter::None => ("", ""),
                };
                out.push(o.to_string());
                flatten_tokens(g.stream(), out);
                out.push(c.to_string());
            }
            other => out.push(other.to_string()),
        }
    }
}

/// The host side of a call (`RotoFunc::invoke`, generated by `macro_rules! func`
/// in `src/codegen/check.rs`; the body is not Rust syntax before expansion, so
/// this is a token scan): for every `fn invoke` with a body, is the return
/// pointer handed to the compiled function `<x>.as_mut_ptr()` of a `let`-bound
/// `MaybeUninit::<…>::uninit()` local of that body, and does the body stay clear
/// of `static` / `thread_local` / leaked or raw allocations.
fn host_invokes(repo: &Path) -> Result<Vec<(bool, bool)>, String> {
    let text = std::fs::read_to_string(repo.join("src/codegen/check.rs")).map_err(|e| format!("src/codegen/check.rs: {e}"))?;
    let ts: proc_macro2::TokenStream = text.parse().map_err(|e| format!("src/codegen/check.rs does not tokenise: {e}"))?;
    let mut toks = vec![];
    flatten_tokens(ts, &mut toks);
    let mut out = vec![];
    let mut i = 0;
    while i + 1 < toks.len() {
        if toks[i] == "fn" && toks[i + 1] == "invoke" {
            // skip to the body: the first `{` at depth 0 after the parameter list, or `;` (trait item)
            let mut j = i + 2;
            let mut depth = 0i32;
            let mut body_start = None;
            while j < toks.len() {
                match toks[j].as_str() {
                    "(" | "[" => depth += 1,
                    ")" | "]" => depth -= 1,
                    ";" if depth == 0 => break,
                    "{" if depth == 0 => {
                        body_start = Some(j);
                        break;
                    }
                    _ => {}
                }
                j += 1;
            }
            if let Some(b) = body_start {
                let mut d = 0i32;
                let mut e = b;
                while e < toks.len() {
                    match toks[e].as_str() {
                        "{" => d += 1,
                        "}" => {
                            d -= 1;
                            if d == 0 {
                                break;
                            }
                        }
                        _ => {}
                    }
                    e += 1;
                }
                let body = &toks[b..e.min(toks.len())];
                // `func_ptr ( <x> . as_mut_ptr ( ) ,` — the return pointer
                let mut ret_local = false;
                let mut handed = 0;
                for k in 0..body.len().saturating_sub(7) {
                    if body[k] == "func_ptr" && body[k + 1] == "(" && body[k + 3] == "." && body[k + 4] == "as_mut_ptr" && body[k + 5] == "(" && body[k + 6] == ")" && body[k + 7] == "," {
                        handed += 1;
                        let x = &body[k + 2];
                        // `let mut <x> = MaybeUninit :: < … > :: uninit ( ) ;`
                        ret_local = (0..body.len().saturating_sub(6)).any(|m| {
                            body[m] == "let" && body[m + 1] == "mut" && &body[m + 2] == x && body[m + 3] == "=" && body[m + 4] == "MaybeUninit" && {
                                let semi = (m..body.len()).find(|&q| body[q] == ";").unwrap_or(body.len());
                                semi >= 4 && body[semi - 3] == "uninit" && body[semi - 2] == "(" && body[semi - 1] == ")"
                            }
                        });
                    }
                }
                let clean = !body.iter().any(|t| {
                    let t = t.as_str();
                    t == "static" || t == "thread_local" || t == "leak" || t == "alloc" || t == "alloc_zeroed" || t == "from_raw" || t == "into_raw" || t == "UnsafeCell" || t == "LazyLock" || t == "OnceLock"
                });
                out.push((handed == 1 && ret_local, clean));
            }
        }
        i += 1;
    }
    Ok(out)
}

fn rs_files(dir: &Path, out: &mut Vec<PathBuf>) -> Result<(), String> {
    let mut es: Vec<_> = std::fs::read_dir(dir)
        .map_err(|e| format!("cannot list {}: {e}", dir.display()))?
        .filter_map(|e| e.ok())
        .map(|e| e.path())
        .collect();
    es.sort();
    for p in es {
        if p.is_dir() {
            rs_files(&p, out)?;
        } else if p.extension().map(|x| x == "rs").unwrap_or(false) {
            out.push(p);
        }
    }
    Ok(())
}

fn list(ops: &[&str]) -> String {
    format!("[{}]", ops.join(", "))
}

pub fn c12frame(repo: &Path) -> Result<String, String> {
    let codegen = find::parse(repo, "src/codegen/mod.rs")?;
    let mb = methods_of(&codegen, "ModuleBuilder");
    let fg = methods_of(&codegen, "FuncGen");

    // 1. define_function: the match over ValueOrSlot inside the loop over `variables`
    let df = find::func(&codegen, "define_function", Some("ModuleBuilder"))?;
    let loops = loops_over(&df.block, "variables");
    if loops.len() != 1 {
        return Err(format!("ModuleBuilder::define_function: {} loops over `variables`", loops.len()));
    }
    let mut am = AllMatches(vec![]);
    am.visit_block(&loops[0].body);
    let slot_matches: Vec<&syn::ExprMatch> = am
        .0
        .iter()
        .filter(|m| m.arms.iter().any(|a| pat_head(&a.pat).map(|h| h.contains("ValueOrSlot")).unwrap_or(false)))
        .collect();
    if slot_matches.len() != 1 {
        return Err(format!("ModuleBuilder::define_function: {} matches over lir::ValueOrSlot in the loop over `variables`", slot_matches.len()));
    }
    let sm = slot_matches[0];
    let mut arms = vec![];
    for a in &sm.arms {
        let head = pat_head(&a.pat).ok_or_else(|| format!("ValueOrSlot arm with pattern `{}`", a.pat.to_token_stream()))?;
        let cls = match head.rsplit("::").next().unwrap_or("") {
            "Val" => ".val",
            "StackSlot" => ".stackSlot",
            other => return Err(format!("ValueOrSlot arm for unknown variant `{other}`")),
        };
        let mut ops = vec![];
        if let Some((_, g)) = &a.guard {
            ops.extend(ops_of_expr(g, None, &mb).map_err(|e| format!("define_function, guard of a {cls} arm: {e}"))?);
        }
        ops.extend(ops_of_expr(&a.body, None, &mb).map_err(|e| format!("define_function, {cls} arm: {e}"))?);
        arms.push((cls, a.guard.is_some(), ops));
    }
    let skip = syn::Expr::Match(sm.clone()).to_token_stream().to_string();
    let define_other = ops_of_block(&df.block, Some(skip), &mb).map_err(|e| format!("define_function: {e}"))?;

    // 2. entry_block: the loop over `stack_slots`
    let eb = find::func(&codegen, "entry_block", Some("FuncGen"))?;
    let eloops = loops_over(&eb.block, "stack_slots");
    if eloops.len() != 1 {
        return Err(format!("FuncGen::entry_block: {} loops over `stack_slots`", eloops.len()));
    }
    let entry_loop = ops_of_block(&eloops[0].body, None, &fg).map_err(|e| format!("entry_block, slot loop: {e}"))?;
    let skip = syn::Expr::ForLoop(eloops[0].clone()).to_token_stream().to_string();
    let entry_other = ops_of_block(&eb.block, Some(skip), &fg).map_err(|e| format!("entry_block: {e}"))?;
    let mut slot_ty = None;
    for a in &eb.sig.inputs {
        if let syn::FnArg::Typed(t) = a {
            if t.pat.to_token_stream().to_string() == "stack_slots" {
                slot_ty = Some(t.ty.to_token_stream().to_string().replace(' ', ""));
            }
        }
    }
    let slot_ty = slot_ty.ok_or("FuncGen::entry_block has no parameter `stack_slots`")?;
    let slot_ty_ok = slot_ty == "Vec<(Var,StackSlot)>" || slot_ty == "&[(Var,StackSlot)]";

    // 3. storage operations of every instruction arm
    let ins = find::func(&codegen, "instruction", Some("FuncGen"))?;
    let ms = find::matches_on(&ins.block, "instruction");
    if ms.len() != 1 {
        return Err(format!("FuncGen::instruction: {} `match instruction` found", ms.len()));
    }
    let mut instr: BTreeMap<String, Vec<&'static str>> = BTreeMap::new();
    for arm in &ms[0].arms {
        let mut heads = vec![];
        match &arm.pat {
            syn::Pat::Or(o) => {
                for c in &o.cases {
                    heads.push(pat_head(c));
                }
            }
            p => heads.push(pat_head(p)),
        }
        let ops: Vec<&'static str> = ops_of_expr(&arm.body, None, &fg)
            .map_err(|e| format!("instruction arm {}: {e}", arm.pat.to_token_stream()))?
            .into_iter()
            .filter(|o| *o != ".memOp")
            .collect();
        for h in heads {
            let h = h.ok_or_else(|| format!("instruction arm with pattern `{}`", arm.pat.to_token_stream()))?;
            let v = h.rsplit("::").next().unwrap_or("").to_string();
            instr.entry(v).or_default().extend(ops.iter().copied());
        }
    }

    // 4. data objects of the JIT module
    let mut files = vec![];
    rs_files(&repo.join("src/codegen"), &mut files)?;
    let mut objs = vec![];
    for p in &files {
        let rel = p.strip_prefix(repo).unwrap().to_string_lossy().to_string();
        let f = find::parse(repo, &rel)?;
        let mut d = DataObjs { cur_fn: vec![], out: vec![] };
        d.visit_file(&f);
        for (func, w, t) in d.out {
            objs.push((rel.clone(), func, w, t));
        }
    }

    let invokes = host_invokes(repo)?;

    let mut s = String::new();
    s.push_str("/- GENERATED by /verif/extract (target c12frame) from src/codegen/ (ModuleBuilder::define_function, FuncGen::entry_block, FuncGen::instruction, every data object declared) — do not edit. -/\nimport RotoV.Model.ConcFrame\nnamespace RotoV.Gen.C12Frame\nopen RotoV.Conc.Frame\n\n");
    s.push_str("def facts : Facts where\n  slotArms := [\n");
    s.push_str(
        &arms
            .iter()
            .map(|(c, g, o)| format!("    {{ cls := {c}, guarded := {g}, ops := {} }}", list(o)))
            .collect::<Vec<_>>()
            .join(",\n"),
    );
    s.push_str("]\n");
    s.push_str(&format!("  defineOtherOps := {}\n", list(&define_other)));
    s.push_str(&format!("  entryLoopOps := {}\n", list(&entry_loop)));
    s.push_str(&format!("  entryOtherOps := {}\n", list(&entry_other)));
    s.push_str(&format!("  -- stack_slots: {slot_ty}\n  entrySlotsAreStackSlots := {slot_ty_ok}\n"));
    s.push_str("  instrStorage := [\n");
    s.push_str(
        &instr
            .iter()
            .filter(|(_, o)| !o.is_empty())
            .map(|(k, o)| format!("    -- Instruction::{k}\n    {}", list(o)))
            .collect::<Vec<_>>()
            .join(",\n"),
    );
    s.push_str("]\n  dataObjects := [\n");
    s.push_str(
        &objs
            .iter()
            .map(|(file, func, w, t)| format!("    -- {file}: {func}\n    {{ writable := {w}, tls := {t} }}"))
            .collect::<Vec<_>>()
            .join(",\n"),
    );
    s.push_str("]\n  -- src/codegen/check.rs: bodies of `fn invoke` (macro_rules! func)\n  hostInvokes := [");
    s.push_str(&invokes.iter().map(|(r, c)| format!("{{ retIsLocal := {r}, clean := {c} }}")).collect::<Vec<_>>().join(", "));
    s.push_str("]\n\nend RotoV.Gen.C12Frame\n");
    Ok(s)
}
