//! Translator targets owned by property C03.
//!
//! `glueloops` → `Generated/GlueLoops.lean`: the per-field loops of the generated
//! drop and clone functions (`src/lir/lower/drops.rs`, `src/lir/lower/clones.rs`),
//! statement by statement in source order, as values of `RotoV.Glue.Step`:
//!
//! ```text
//! let Some(layout) = self.layout_of(ty) else { continue; };          layoutOrSkip
//! let new_offset = builder.add(&layout);                             add
//! if !self.needs_drop(ty) { continue; }                              skipUnlessNeedsDrop
//! if !self.needs_clone(ty) { continue; }                             skipUnlessNeedsDrop   (same predicate)
//! let x = self.offset(<base>.clone(), new_offset as u32);            ptr x <base>
//! let x = Location::Pointer { base: <base>.clone(), offset: new_offset };   ptr x <base>
//! self.call_drop_of(x.into(), ty);                                   callDrop x
//! self.call_clone_of(a, b, ty);                                      callClone a b
//! ```
//! plus, for the enum functions, what is added to the fresh `LayoutBuilder` of a
//! variant before its fields (`builder.add(&Layout::of::<u8>())` → `addTag`).
//! `<base>` is `root_var` (the value operated on) or `return_var` (the clone's
//! destination). Any other statement in these loops is an extraction failure:
//! the Lean model would not know what it does.
//!
//! The same target also reads the decisions that surround the loops, so that the Lean model has
//! no hand-written copy of them:
//!
//! * `call_drop_of` / `call_clone_function`, statement by statement, as `RotoV.Glue.CStmt`
//!   (an `if` becomes `ifc <condition> <number of statements of its body>` followed by the body):
//! ```text
//! let size = self.layout_of(ty).unwrap().size() as u32;              letSize
//! if !self.needs_drop(ty) { … } / if !self.needs_clone(ty) { … }     ifc .notNeeds n
//! if size == 0 { … } / if size > 0 { … }                             ifc .sizeZero n / ifc .sizePos n
//! if let Some(f) = self.get_runtime_drop(ty) { … }   (or _clone)     ifc .hasRuntime n
//! return;                                                            ret
//! self.emit_memcpy(to.into(), from.into(), size);                    memcpy
//! self.emit(Instruction::Drop { var: var.clone(), drop: Some(drop) });   runtime
//! self.emit_clone(to.into(), from.into(), clone_fn);                 runtime
//! self.emit(Instruction::Call { …, func: format!("::generated::drop_{type_id}").into(), args: vec![var], return_ptr: None });   callGen
//! self.emit(Instruction::Call { …, func: format!("::generated::clone_{type_id}").into(), args: vec![from.clone().into()], return_ptr: Some(to) });   callGen
//! self.ctx.drops_to_generate.push_back(ty); (or clones_)             enqueue
//! let type_id = ty.type_id();                                        (no effect, skipped)
//! ```
//!   Tolerated, because they change nothing that is emitted: the runtime lookup written as
//!   `match self.get_runtime_drop(ty) { Some(x) => { … } None => {} }`, any name for the bound
//!   function (the `Drop` / `emit_clone` statement must use that name), the name of the generated
//!   function built in a local first or by a free helper `fn h(ty: TyRef) -> String` of the same
//!   file (`name_template` evaluates these to `::generated::drop_{type_id}` /
//!   `::generated::clone_{type_id}`; `generate_drop` / `generate_clone` must give the function
//!   they generate the same name).
//! * the arms of `needs_drop` / `needs_clone` (`match ty { … }`) as `(KPat, NeedArm)` pairs in
//!   source order: `false` → `.no`, `true` → `.yes`, `fields.iter().any(|&(_, t)| self.needs_X(t))`
//!   → `.anyField .X`, `variants.iter().flat_map(|v| &v.1).any(|&t| self.needs_X(t))` →
//!   `.anyVariantField .X`, the `movability()` / `matches!(m, Movability::CloneDrop(..))` block →
//!   `.cloneDrop`;
//! * the type kinds for which `get_runtime_drop` / `get_runtime_clone` look up a registered type
//!   (`Some(…)` arms of their `match ty`) and which function of the `CloneDrop` pair they return.
//! Anything else in these functions is an extraction failure.
//!
//! `listown` → `Generated/ListOwn.lean`: every function of `impl ErasedList`
//! (`src/value/list.rs`) that receives an element by raw pointer (`NonNull<T>`), as a list of
//! `RotoV.ListOwn.OStmt` in source order, and the function each script-visible list method
//! with a `DynVal` parameter (`src/runtime/basic.rs`) hands its argument to:
//!
//! ```text
//! let raw = self.0.lock().unwrap();                                   lock
//! let res = unsafe { raw.<f>(p) };   (f reads p only through eq_fn)   borrow
//! unsafe { self.0.lock().unwrap().<f>(p) }                            lock, borrow | moveIn
//!     (moveIn: `RawList::<f>` copies the bytes of p into the list and counts it in)
//! if let Some(drop_fn) = raw.vtable.drop_fn { unsafe { drop_fn(p.as_ptr()) }; }   releaseIfDroppable
//! if <condition without p> { return <expression without p>; }         retIf
//! <tail expression without p> / return …;                             ret
//! ```
//! `#[cfg(feature = "verif-hooks")]` statements are skipped, a `let` that does not mention the
//! pointer is tolerated; any other statement is an extraction failure.
#[allow(unused_imports)]
use super::{Gen, Target};
use crate::find;
use quote::ToTokens;
use std::path::Path;
use syn::visit::Visit;

pub const TARGETS: &[Target] = &[
    ("glueloops", "GlueLoops", glueloops as Gen),
    ("listown", "ListOwn", listown as Gen),
    ("mirlower", "MirLower", mirlower as Gen),
    ("glueloopsdrv", "GlueLoopsDrv", glueloops_drv as Gen),
];

/// What the DRIVER runs its glue model on (`c03 glue-check` / `glue-shallow`): the loops and
/// decisions as `glueloops` reads them from the current source — the identical text — and, when
/// that extraction fails (the source left the translated subset: `Generated/GlueLoops.lean` is
/// then a stub that does not compile and every theorem over it is a broken obligation), the
/// definitions as they were extracted from the tree the theorems were last proved on
/// (`c03_glueloops_ref.lean`, a verbatim copy of a generated file).  The driver therefore still
/// builds, answers `c03 check`, and its glue model states what a correct glue does, so that the
/// search for a concrete failing input does not depend on a driver binary left over from an
/// earlier run.  No theorem imports this module.
fn glueloops_drv(repo: &Path) -> Result<String, String> {
    match glueloops(repo) {
        Ok(body) => Ok(body),
        Err(e) => Ok(format!(
            "/- FALLBACK for the driver only: extraction of `glueloops` failed ({}); these are the definitions last verified. -/\n{}",
            e.replace('\n', " ").replace("-/", "- /"),
            include_str!("c03_glueloops_ref.lean")
        )),
    }
}

fn norm<T: ToTokens>(t: &T) -> String {
    t.to_token_stream().to_string().replace(' ', "")
}

struct Loops(Vec<syn::ExprForLoop>);
impl<'ast> Visit<'ast> for Loops {
    fn visit_expr_for_loop(&mut self, l: &'ast syn::ExprForLoop) {
        self.0.push(l.clone());
        syn::visit::visit_expr_for_loop(self, l);
    }
}

fn base(s: &str) -> Result<&'static str, String> {
    match s {
        "root_var" => Ok(".root"),
        "return_var" => Ok(".ret"),
        o => Err(format!("unknown base variable `{o}`")),
    }
}

fn lvar(s: &str) -> Result<&'static str, String> {
    match s {
        "var" => Ok(".var"),
        "to" => Ok(".to"),
        "from" => Ok(".from"),
        o => Err(format!("unknown local `{o}`")),
    }
}

/// one statement of a field loop → a `Step`
fn step(st: &syn::Stmt) -> Result<String, String> {
    let s = norm(st);
    let ty_ok = |t: &str| t == "ty" || t == "*ty";
    if s == "letSome(layout)=self.layout_of(ty)else{continue;};" {
        return Ok(".layoutOrSkip".into());
    }
    if s == "letnew_offset=builder.add(&layout);" {
        return Ok(".add".into());
    }
    for pred in ["needs_drop", "needs_clone"] {
        if let Some(rest) = s.strip_prefix(&format!("if!self.{pred}(")) {
            if let Some(t) = rest.strip_suffix("){continue;}") {
                if ty_ok(t) {
                    return Ok(".skipUnlessNeedsDrop".into());
                }
            }
        }
    }
    if let Some(rest) = s.strip_prefix("let") {
        if let Some((x, rhs)) = rest.split_once('=') {
            if let Some(r) = rhs.strip_prefix("self.offset(") {
                if let Some(b) = r.strip_suffix(".clone(),new_offsetasu32);") {
                    return Ok(format!(".ptr {} {}", lvar(x)?, base(b)?));
                }
            }
            if let Some(r) = rhs.strip_prefix("Location::Pointer{base:") {
                if let Some(b) = r.strip_suffix(".clone(),offset:new_offset,};") {
                    return Ok(format!(".ptr {} {}", lvar(x)?, base(b)?));
                }
            }
        }
    }
    if let Some(r) = s.strip_prefix("self.call_drop_of(") {
        if let Some(a) = r.strip_suffix(");") {
            if let Some((x, t)) = a.split_once(".into(),") {
                if ty_ok(t) {
                    return Ok(format!(".callDrop {}", lvar(x)?));
                }
            }
        }
    }
    if let Some(r) = s.strip_prefix("self.call_clone_of(") {
        if let Some(a) = r.strip_suffix(");") {
            let parts: Vec<&str> = a.split(',').collect();
            if parts.len() == 3 && ty_ok(parts[2]) {
                return Ok(format!(".callClone {} {}", lvar(parts[0])?, lvar(parts[1])?));
            }
        }
    }
    Err(format!("statement outside the translated subset: {}", st.to_token_stream()))
}

/// the field loop of `fname` (the innermost `for` whose body has no further `for`)
/// and, for enum functions, the statements of the enclosing loop body between
/// `let mut builder = LayoutBuilder::new();` and the field loop
fn field_loop(file: &syn::File, fname: &str, is_enum: bool) -> Result<(Vec<String>, Vec<String>), String> {
    let f = find::func(file, fname, None)?;
    let mut ls = Loops(vec![]);
    ls.visit_block(&f.block);
    let expect = if is_enum { 2 } else { 1 };
    if ls.0.len() != expect {
        return Err(format!("{fname}: expected {expect} `for` loop(s), found {}", ls.0.len()));
    }
    let inner = ls.0.last().unwrap().clone();
    let head = format!("for {} in {}", norm(&inner.pat), norm(&inner.expr));
    let want = if is_enum { "for (ty,layout) in layouts" } else { "for &(_,ty) in fields" };
    if head != want {
        return Err(format!("{fname}: field loop is `{head}`, expected `{want}`"));
    }
    let mut steps = vec![];
    for st in &inner.body.stmts {
        steps.push(step(st).map_err(|e| format!("{fname}: {e}"))?);
    }
    let mut pre = vec![];
    if is_enum {
        let outer = &ls.0[0];
        let mut seen_builder = false;
        let mut seen_loop = false;
        for st in &outer.body.stmts {
            let s = norm(st);
            if s == "letmutbuilder=LayoutBuilder::new();" {
                seen_builder = true;
                continue;
            }
            if s.starts_with("for(ty,layout)inlayouts") {
                seen_loop = true;
                break;
            }
            if seen_builder {
                if s == "builder.add(&Layout::of::<u8>());" {
                    pre.push(".addTag".to_string());
                } else {
                    return Err(format!("{fname}: statement between the builder and the field loop outside the subset: {}", st.to_token_stream()));
                }
            }
        }
        if !seen_builder || !seen_loop {
            return Err(format!("{fname}: `let mut builder = LayoutBuilder::new();` followed by the field loop not found"));
        }
    } else {
        // the record functions create the builder right before the loop
        let body = norm(&f.block);
        if !body.contains("letmutbuilder=LayoutBuilder::new();for&(_,ty)infields") {
            return Err(format!("{fname}: the builder is not created right before the field loop"));
        }
    }
    Ok((pre, steps))
}

// -- call_drop_of / call_clone_function ---------------------------------------------------------

fn is_hook(st: &syn::Stmt) -> bool {
    norm(st).starts_with("#[cfg(feature=\"verif-hooks\")]")
}

/// What a name-building expression of the glue functions evaluates to, as a template:
/// `format!("::generated::drop_{type_id}")` with `let type_id = ty.type_id();` in scope, a local
/// bound to such an expression, or a call `helper(ty)` of a free function of the same file whose
/// body is such an expression.
fn name_template(file: &syn::File, expr: &str, env: &[(String, String)], depth: u32) -> Result<String, String> {
    if depth > 4 {
        return Err(format!("name expression `{expr}` nests too deep"));
    }
    if let Some(r) = expr.strip_prefix("format!(\"") {
        let lit = r.strip_suffix("\")").ok_or(format!("`{expr}`: format! with arguments is outside the translated subset"))?;
        if lit.matches('{').count() != 1 || !lit.ends_with("{type_id}") {
            return Err(format!("`{expr}`: only `{{type_id}}` may be interpolated"));
        }
        match env.iter().rev().find(|e| e.0 == "type_id") {
            Some((_, init)) if init == "ty.type_id()" => return Ok(lit.to_string()),
            _ => return Err(format!("`{expr}`: `type_id` is not `ty.type_id()` here")),
        }
    }
    if expr.chars().all(|c| c.is_alphanumeric() || c == '_') {
        if let Some((_, init)) = env.iter().rev().find(|e| e.0 == expr) {
            let init = init.clone();
            return name_template(file, &init, env, depth + 1);
        }
        return Err(format!("unknown local `{expr}`"));
    }
    if let Some(h) = expr.strip_suffix("(ty)") {
        if h.chars().all(|c| c.is_alphanumeric() || c == '_') {
            let f = find::func(file, h, None)?;
            if norm(&f.sig.inputs) != "ty:TyRef" || f.impl_of.is_some() {
                return Err(format!("helper `{h}` is not a free function of `ty: TyRef`"));
            }
            let mut henv = vec![];
            let n = f.block.stmts.len();
            for (i, st) in f.block.stmts.iter().enumerate() {
                if i + 1 == n {
                    let tail = norm(st);
                    if tail.ends_with(';') {
                        return Err(format!("helper `{h}` has no tail expression"));
                    }
                    return name_template(file, &tail, &henv, depth + 1);
                }
                match pure_let(st) {
                    Some(b) => henv.push(b),
                    None => return Err(format!("helper `{h}`: statement outside the translated subset: {}", st.to_token_stream())),
                }
            }
        }
    }
    Err(format!("name expression `{expr}` is outside the translated subset"))
}

/// `let x = <ty.type_id() | format!(…) | helper(ty)>;`: a binding without effect on what is emitted
fn pure_let(st: &syn::Stmt) -> Option<(String, String)> {
    let syn::Stmt::Local(l) = st else { return None };
    let syn::Pat::Ident(id) = &l.pat else { return None };
    let init = l.init.as_ref()?;
    if init.diverge.is_some() || id.by_ref.is_some() {
        return None;
    }
    let e = norm(&init.expr);
    let helper_call = e.strip_suffix("(ty)").is_some_and(|h| !h.is_empty() && h.chars().all(|c| c.is_alphanumeric() || c == '_'));
    if e == "ty.type_id()" || (e.starts_with("format!(\"") && e.ends_with("\")")) || helper_call {
        return Some((id.ident.to_string(), e));
    }
    None
}

struct CallCtx<'a> {
    file: &'a syn::File,
    fname: &'a str,
    env: Vec<(String, String)>,
}

/// the statements of a block of `call_drop_of` / `call_clone_function` → flat `CStmt`s;
/// `rt` = the name the enclosing `if let Some(<rt>) = self.get_runtime_…(ty)` binds
fn call_stmts(cx: &mut CallCtx, stmts: &[syn::Stmt], rt: Option<&str>, out: &mut Vec<String>) -> Result<(), String> {
    let fname = cx.fname;
    let is_drop = fname == "call_drop_of";
    for st in stmts {
        if is_hook(st) {
            continue;
        }
        let s = norm(st);
        if s == "letsize=self.layout_of(ty).unwrap().size()asu32;" {
            out.push(".letSize".into());
            continue;
        }
        if let Some(b) = pure_let(st) {
            cx.env.push(b);
            continue;
        }
        if s == "return;" {
            out.push(".ret".into());
            continue;
        }
        if !is_drop && s == "self.emit_memcpy(to.into(),from.into(),size);" {
            out.push(".memcpy".into());
            continue;
        }
        if let Some(x) = rt {
            let want = if is_drop {
                format!("self.emit(Instruction::Drop{{var:var.clone(),drop:Some({x}),}});")
            } else {
                format!("self.emit_clone(to.into(),from.into(),{x});")
            };
            if s == want {
                out.push(".runtime".into());
                continue;
            }
        }
        let (pre, post, template, queue) = if is_drop {
            ("self.emit(Instruction::Call{to:None,ctx:None,func:", ".into(),args:vec![var],return_ptr:None,});", "::generated::drop_{type_id}", "self.ctx.drops_to_generate.push_back(ty);")
        } else {
            ("self.emit(Instruction::Call{to:None,ctx:None,func:", ".into(),args:vec![from.clone().into()],return_ptr:Some(to),});", "::generated::clone_{type_id}", "self.ctx.clones_to_generate.push_back(ty);")
        };
        if let Some(f) = s.strip_prefix(pre).and_then(|r| r.strip_suffix(post)) {
            let t = name_template(cx.file, f, &cx.env, 0).map_err(|e| format!("{fname}: {e}"))?;
            if t != template {
                return Err(format!("{fname}: calls `{t}`, expected `{template}`"));
            }
            out.push(".callGen".into());
            continue;
        }
        if s == queue {
            out.push(".enqueue".into());
            continue;
        }
        // `if <cond> { … }` without else, or `match self.get_runtime_…(ty) { Some(x) => { … } None => {} }`
        let want_rt = if is_drop { "self.get_runtime_drop(ty)" } else { "self.get_runtime_clone(ty)" };
        if let syn::Stmt::Expr(syn::Expr::If(e), _) = st {
            if e.else_branch.is_some() {
                return Err(format!("{fname}: `if … else` is outside the translated subset: {}", st.to_token_stream()));
            }
            let c = norm(&e.cond);
            let want_pred = if is_drop { "needs_drop" } else { "needs_clone" };
            let mut bound: Option<String> = None;
            let cond = if c == format!("!self.{want_pred}(ty)") {
                ".notNeeds"
            } else if c == "size==0" {
                ".sizeZero"
            } else if c == "size>0" || c == "size!=0" {
                ".sizePos"
            } else if let Some(x) = c.strip_prefix("letSome(").and_then(|r| r.strip_suffix(&format!(")={want_rt}"))) {
                bound = Some(x.to_string());
                ".hasRuntime"
            } else {
                return Err(format!("{fname}: condition outside the translated subset: {}", e.cond.to_token_stream()));
            };
            let mut body = vec![];
            let mark = cx.env.len();
            call_stmts(cx, &e.then_branch.stmts, bound.as_deref().or(rt), &mut body)?;
            cx.env.truncate(mark);
            out.push(format!(".ifc {cond} {}", body.len()));
            out.extend(body);
            continue;
        }
        if let syn::Stmt::Expr(syn::Expr::Match(m), _) = st {
            if norm(&m.expr) == want_rt && m.arms.len() == 2 {
                let mut some_arm = None;
                let mut none_ok = false;
                for a in &m.arms {
                    let p = norm(&a.pat);
                    if a.guard.is_some() {
                        return Err(format!("{fname}: guarded arm"));
                    }
                    if p == "None" && matches!(norm(&a.body).as_str(), "{}" | "()") {
                        none_ok = true;
                    } else if let Some(x) = p.strip_prefix("Some(").and_then(|r| r.strip_suffix(')')) {
                        some_arm = Some((x.to_string(), &a.body));
                    }
                }
                if let (Some((x, body_expr)), true) = (some_arm, none_ok) {
                    if let syn::Expr::Block(b) = &**body_expr {
                        let mut body = vec![];
                        let mark = cx.env.len();
                        call_stmts(cx, &b.block.stmts, Some(&x), &mut body)?;
                        cx.env.truncate(mark);
                        out.push(format!(".ifc .hasRuntime {}", body.len()));
                        out.extend(body);
                        continue;
                    }
                }
            }
        }
        return Err(format!("{fname}: statement outside the translated subset: {}", st.to_token_stream()));
    }
    Ok(())
}

fn call_fn(file: &syn::File, fname: &str, params: &str) -> Result<Vec<String>, String> {
    let f = find::func(file, fname, None)?;
    let sig = norm(&f.sig.inputs);
    if sig != params {
        return Err(format!("{fname}: parameters are `{sig}`, expected `{params}`"));
    }
    let mut out = vec![];
    let mut cx = CallCtx { file, fname, env: vec![] };
    call_stmts(&mut cx, &f.block.stmts, None, &mut out)?;
    Ok(out)
}

/// the name `generate_drop` / `generate_clone` gives the function it generates must be the one
/// `call_drop_of` / `call_clone_function` call
fn generated_name(file: &syn::File, fname: &str, template: &str) -> Result<(), String> {
    let f = find::func(file, fname, None)?;
    let mut env = vec![];
    for st in &f.block.stmts {
        if let Some(b) = pure_let(st) {
            env.push(b);
            continue;
        }
        let s = norm(st);
        if let Some(e) = s.strip_prefix("letident=").and_then(|r| r.strip_suffix(".into();")) {
            let t = name_template(file, e, &env, 0).map_err(|e| format!("{fname}: {e}"))?;
            if t != template {
                return Err(format!("{fname}: names the generated function `{t}`, the call sites call `{template}`"));
            }
            return Ok(());
        }
    }
    Err(format!("{fname}: `let ident = <name>.into();` not found"))
}

// -- needs_drop / needs_clone -------------------------------------------------------------------

fn kpat(p: &syn::Pat) -> Result<&'static str, String> {
    Ok(match norm(p).as_str() {
        "Ty::Unit" => ".unit",
        "Ty::Never" => ".never",
        "Ty::Record(fields)" | "Ty::Record(_)" => ".record",
        "Ty::Enum(variants)" | "Ty::Enum(_)" => ".enum",
        "Ty::Primitive(Primitive::String)" => ".string",
        "Ty::Primitive(_)" => ".primAny",
        "Ty::List(_)" => ".list",
        "Ty::Runtime(type_id)" | "Ty::Runtime(id)" | "Ty::Runtime(_)" => ".runtime",
        "_" => ".wild",
        o => return Err(format!("type pattern outside the translated subset: `{o}`")),
    })
}

fn needs_arms(file: &syn::File, fname: &str) -> Result<Vec<String>, String> {
    let f = find::func(file, fname, None)?;
    let body = norm(&f.block);
    if !body.starts_with("{letty=self.ctx.type_info.ty_pool.get(ty);matchty{") {
        return Err(format!("{fname}: does not start with the type lookup followed by `match ty`"));
    }
    let ms = find::matches_on(&f.block, "ty");
    if ms.len() != 1 || f.block.stmts.len() != 2 {
        return Err(format!("{fname}: expected exactly `let ty = …; match ty {{ … }}`"));
    }
    let mut out = vec![];
    for a in &ms[0].arms {
        if a.guard.is_some() {
            return Err(format!("{fname}: guarded arm"));
        }
        let b = norm(&a.body);
        let arm = match b.as_str() {
            "false" => ".no".to_string(),
            "true" => ".yes".to_string(),
            "{fields.iter().any(|&(_,t)|self.needs_clone(t))}" | "fields.iter().any(|&(_,t)|self.needs_clone(t))" => ".anyField .clone".into(),
            "{fields.iter().any(|&(_,t)|self.needs_drop(t))}" | "fields.iter().any(|&(_,t)|self.needs_drop(t))" => ".anyField .drop".into(),
            "variants.iter().flat_map(|v|&v.1).any(|&t|self.needs_clone(t))" => ".anyVariantField .clone".into(),
            "variants.iter().flat_map(|v|&v.1).any(|&t|self.needs_drop(t))" => ".anyVariantField .drop".into(),
            "{letm=self.ctx.runtime.get_runtime_type(*type_id).unwrap().movability();matches!(m,Movability::CloneDrop(..))}" => ".cloneDrop".into(),
            o => return Err(format!("{fname}: arm body outside the translated subset: `{o}`")),
        };
        out.push(format!("({}, {arm})", kpat(&a.pat).map_err(|e| format!("{fname}: {e}"))?));
    }
    Ok(out)
}

/// `get_runtime_drop` / `get_runtime_clone`: the kinds with a `Some(…)` arm, and the field returned
fn runtime_fn(file: &syn::File, fname: &str) -> Result<(Vec<String>, &'static str), String> {
    let f = find::func(file, fname, None)?;
    let body = norm(&f.block);
    let ms = find::matches_on(&f.block, "ty");
    if ms.len() != 1 {
        return Err(format!("{fname}: expected one `match ty`"));
    }
    let mut kinds = vec![];
    let mut rest_none = false;
    for a in &ms[0].arms {
        let k = kpat(&a.pat).map_err(|e| format!("{fname}: {e}"))?;
        let b = norm(&a.body);
        let b = b.strip_prefix('{').and_then(|x| x.strip_suffix('}')).unwrap_or(&b).to_string();
        if b == "None" && k == ".wild" {
            rest_none = true;
        } else if b.starts_with("Some(") && !rest_none {
            kinds.push(k.to_string());
        } else {
            return Err(format!("{fname}: arm outside the translated subset: `{b}`"));
        }
    }
    if !rest_none {
        return Err(format!("{fname}: no `_ => None` arm"));
    }
    let field = if fname == "get_runtime_drop" { "drop" } else { "clone" };
    let other = if field == "drop" { "clone" } else { "drop" };
    let tail = |fld: &str, var: &str| format!("letid=id?;letty=self.ctx.runtime.get_runtime_type(id).unwrap();ifletMovability::CloneDrop({var})=ty.movability(){{Some({var}.{fld})}}else{{None}}}}");
    let which = if body.ends_with(&tail(field, "clone_drop")) {
        field
    } else if body.ends_with(&tail(other, "clone_drop")) {
        other
    } else {
        return Err(format!("{fname}: what follows the `match ty` is outside the translated subset"));
    };
    if !body.starts_with("{letty=self.ctx.type_info.ty_pool.get(ty);letid=matchty{") {
        return Err(format!("{fname}: does not start with the type lookup followed by `let id = match ty`"));
    }
    Ok((kinds, if which == "drop" { ".drop" } else { ".clone" }))
}

// -- generate_drop_body / generate_clone_body: which body a type gets --------------------------

/// `(runtime shortcut first?, arms of the `match` on the type)`: the shortcut is
/// `if let Some(f) = self.get_runtime_…(ty) { <emit the runtime function on the value>; self.emit_return(None); return; }`
fn body_dispatch(file: &syn::File, fname: &str) -> Result<(bool, Vec<String>), String> {
    let is_drop = fname == "generate_drop_body";
    let f = find::func(file, fname, None)?;
    let shortcut = if is_drop {
        "ifletSome(drop_fn)=self.get_runtime_drop(ty){self.emit(Instruction::Drop{var:root_var.clone().into(),drop:Some(drop_fn),});self.emit_return(None);return;}"
    } else {
        "ifletSome(clone_fn)=self.get_runtime_clone(ty){self.emit(Instruction::Clone{to:return_var.into(),from:root_var.into(),clone_fn,});self.emit_return(None);return;}"
    };
    let mut seen_shortcut = false;
    let mut arms = vec![];
    let mut seen_match = false;
    for st in &f.block.stmts {
        if is_hook(st) {
            continue;
        }
        let s = norm(st);
        if s == shortcut {
            if seen_match {
                return Err(format!("{fname}: the runtime shortcut comes after the match"));
            }
            seen_shortcut = true;
            continue;
        }
        if let syn::Stmt::Expr(syn::Expr::Match(m), _) = st {
            if norm(&m.expr) != "self.ctx.type_info.ty_pool.get(ty)" || seen_match {
                return Err(format!("{fname}: unexpected match on `{}`", norm(&m.expr)));
            }
            seen_match = true;
            for a in &m.arms {
                if a.guard.is_some() {
                    return Err(format!("{fname}: guarded arm"));
                }
                let b = norm(&a.body);
                let arm = if b == "{self.emit_return(None);}" {
                    ".ret"
                } else if is_drop && b == "{letfields=fields.clone();self.generate_drop_body_record(root_var,&fields);}" {
                    ".recordLoop"
                } else if !is_drop && (b == "{letfields=fields.clone();self.generate_clone_body_record(return_var,root_var,&fields)}" || b == "{letfields=fields.clone();self.generate_clone_body_record(return_var,root_var,&fields);}") {
                    ".recordLoop"
                } else if is_drop && b == "{letvariants=variants.clone();self.generate_drop_body_enum(root_var,&variants);}" {
                    ".enumSwitch"
                } else if !is_drop && b == "{letvariants=variants.clone();self.generate_clone_body_enum(return_var,root_var,&variants,);}" {
                    ".enumSwitch"
                } else if !is_drop && b == "{letsize=self.layout_of(ty).unwrap().size()asu32;self.emit_memcpy(return_var.into(),root_var.into(),size);self.emit_return(None);}" {
                    ".memcpyRet"
                } else if b.starts_with("{ice!(") {
                    ".ice"
                } else {
                    return Err(format!("{fname}: arm body outside the translated subset: `{b}`"));
                };
                // `A | B` patterns are two arms with the same body
                let pats: Vec<&syn::Pat> = match &a.pat {
                    syn::Pat::Or(o) => o.cases.iter().collect(),
                    p => vec![p],
                };
                for p in pats {
                    arms.push(format!("({}, {arm})", kpat(p).map_err(|e| format!("{fname}: {e}"))?));
                }
            }
            continue;
        }
        // the entry block and the variables the body works on
        let setup = s.starts_with("self.blocks.push(Block{label:self.ctx.label_store.new_label(ident),instructions:Vec::new(),});")
            || s == "letroot_var=Var{scope,kind:VarKind::Explicit(\"val\".into()),};"
            || s == "letreturn_var=Var{scope,kind:VarKind::Return,};";
        if !setup || seen_match {
            return Err(format!("{fname}: statement outside the translated subset: {}", st.to_token_stream()));
        }
    }
    if !seen_match {
        return Err(format!("{fname}: no match on the type"));
    }
    Ok((seen_shortcut, arms))
}

/// `Lowerer::call_runtime`: when the vtable handed to a generic runtime function (lists) gets a
/// clone / drop function for the element type, and which generated function that is
fn vtable_fn(file: &syn::File, which: &str) -> Result<String, String> {
    let f = find::func(file, "call_runtime", None)?;
    let body = norm(&f.block);
    let want = format!(
        "let{which}_func_addr=ifself.needs_{which}(ty_ref){{lettmp=self.new_tmp(IrType::Pointer);self.emit(Instruction::FunctionAddress{{to:tmp.clone(),name:format!(\"::generated::{which}_{{type_id}}\").into(),}});self.ctx.{which}s_to_generate.push_back(ty_ref);tmp.into()}}else{{Operand::Value(crate::lir::IrValue::Pointer(0))}};");
    if body.matches(&want).count() != 1 {
        return Err(format!("call_runtime: `let {which}_func_addr = if self.needs_{which}(ty_ref) {{ <address of ::generated::{which}_<type> , requested> }} else {{ null }};` not found exactly once"));
    }
    if !body.contains("lettype_id=ty_ref.type_id();") {
        return Err("call_runtime: `let type_id = ty_ref.type_id();` not found".into());
    }
    // the address is what is written into the vtable slot
    let slot = format!("self.emit_write(dst,{which}_func_addr);");
    if body.matches(&slot).count() != 1 {
        return Err(format!("call_runtime: `{which}_func_addr` is not written into the vtable exactly once"));
    }
    Ok(format!("⟨.{which}, .{which}⟩"))
}

/// `call_clone_of`, arm (Pointer, Pointer): must hand the two addresses and the type to
/// `call_clone_function` and do nothing else
fn clone_of_pointer_arm(file: &syn::File) -> Result<(), String> {
    let f = find::func(file, "call_clone_of", None)?;
    let ms = find::matches_on(&f.block, "(to,from)");
    if ms.len() != 1 {
        return Err("call_clone_of: `match (to, from)` not found".into());
    }
    let want_pat = "(Location::Pointer{base:base_to,offset:offset_to,},Location::Pointer{base:base_from,offset:offset_from,},)";
    let arm = ms[0].arms.iter().find(|a| norm(&a.pat) == want_pat).ok_or("call_clone_of: the (Pointer, Pointer) arm was not found")?;
    let b = norm(&arm.body);
    let a1 = "{letfrom=self.offset(base_from,offset_fromasu32);letto=self.offset(base_to,offset_toasu32);self.call_clone_function(from,to,ty);}";
    let a2 = "{letto=self.offset(base_to,offset_toasu32);letfrom=self.offset(base_from,offset_fromasu32);self.call_clone_function(from,to,ty);}";
    if b != a1 && b != a2 {
        return Err(format!("call_clone_of: the (Pointer, Pointer) arm does something else than `call_clone_function(from, to, ty)` on the two addresses: `{b}`"));
    }
    if norm(&f.sig.inputs) != "&mutself,to:Location,from:Location,ty:TyRef" {
        return Err("call_clone_of: unexpected parameters".into());
    }
    Ok(())
}

fn glueloops(repo: &Path) -> Result<String, String> {
    let drops = find::parse(repo, "src/lir/lower/drops.rs")?;
    let clones = find::parse(repo, "src/lir/lower/clones.rs")?;
    let (_, dr) = field_loop(&drops, "generate_drop_body_record", false)?;
    let (dpre, de) = field_loop(&drops, "generate_drop_body_enum", true)?;
    let (_, cr) = field_loop(&clones, "generate_clone_body_record", false)?;
    let (cpre, ce) = field_loop(&clones, "generate_clone_body_enum", true)?;
    let list = |v: &[String]| format!("[{}]", v.join(", "));
    let mut out = String::new();
    out.push_str("/- GENERATED by /verif/extract from src/lir/lower/drops.rs, src/lir/lower/clones.rs (field loops of the generated drop / clone functions) — do not edit. -/\nimport RotoV.Model.Glue\nnamespace RotoV.Gen.GlueLoops\nopen RotoV.Glue\n\n");
    out.push_str(&format!("/-- `generate_drop_body_record`: body of `for &(_, ty) in fields` -/\ndef dropRecord : List Step := {}\n\n", list(&dr)));
    out.push_str(&format!("/-- `generate_drop_body_enum`: added to a variant's fresh builder before its fields -/\ndef dropEnumPre : List Pre := {}\n\n", list(&dpre)));
    out.push_str(&format!("/-- `generate_drop_body_enum`: body of `for (ty, layout) in layouts` -/\ndef dropEnum : List Step := {}\n\n", list(&de)));
    out.push_str(&format!("/-- `generate_clone_body_record`: body of `for &(_, ty) in fields` -/\ndef cloneRecord : List Step := {}\n\n", list(&cr)));
    out.push_str(&format!("def cloneEnumPre : List Pre := {}\n\n", list(&cpre)));
    out.push_str(&format!("/-- `generate_clone_body_enum`: body of `for (ty, layout) in layouts` -/\ndef cloneEnum : List Step := {}\n\n", list(&ce)));
    let dcall = call_fn(&drops, "call_drop_of", "&mutself,var:Operand,ty:TyRef")?;
    let ccall = call_fn(&clones, "call_clone_function", "&mutself,from:Var,to:Var,ty:TyRef")?;
    generated_name(&drops, "generate_drop", "::generated::drop_{type_id}")?;
    generated_name(&clones, "generate_clone", "::generated::clone_{type_id}")?;
    out.push_str(&format!("/-- `Lowerer::call_drop_of(var, ty)`, statement by statement -/\ndef dropCall : List CStmt := {}\n\n", list(&dcall)));
    out.push_str(&format!("/-- `Lowerer::call_clone_function(from, to, ty)`, statement by statement -/\ndef cloneCall : List CStmt := {}\n\n", list(&ccall)));
    out.push_str(&format!("/-- `Lowerer::needs_drop`: the arms of `match ty` -/\ndef needsDropArms : List (KPat × NeedArm) := {}\n\n", list(&needs_arms(&drops, "needs_drop")?)));
    out.push_str(&format!("/-- `Lowerer::needs_clone`: the arms of `match ty` -/\ndef needsCloneArms : List (KPat × NeedArm) := {}\n\n", list(&needs_arms(&clones, "needs_clone")?)));
    let (dk, df) = runtime_fn(&drops, "get_runtime_drop")?;
    let (ck, cf) = runtime_fn(&clones, "get_runtime_clone")?;
    out.push_str(&format!("/-- `get_runtime_drop`: the kinds looked up among the registered types, and the function of the `CloneDrop` pair it returns -/\ndef runtimeDropKinds : List KPat := {}\ndef runtimeDropField : Fn := {df}\n\n", list(&dk)));
    out.push_str(&format!("/-- `get_runtime_clone` -/\ndef runtimeCloneKinds : List KPat := {}\ndef runtimeCloneField : Fn := {cf}\n\n", list(&ck)));
    clone_of_pointer_arm(&clones)?;
    let (dsc, darms) = body_dispatch(&drops, "generate_drop_body")?;
    let (csc, carms) = body_dispatch(&clones, "generate_clone_body")?;
    out.push_str(&format!("/-- `generate_drop_body`: the runtime shortcut comes first; then the arms of the match on the type -/\ndef dropBody : BodyFn := ⟨{dsc}, {}⟩\n\n", list(&darms)));
    out.push_str(&format!("/-- `generate_clone_body` -/\ndef cloneBody : BodyFn := ⟨{csc}, {}⟩\n\n", list(&carms)));
    let lower = find::parse(repo, "src/lir/lower.rs")?;
    out.push_str(&format!("/-- `call_runtime`: the vtable of an element type gets a clone function when `needs_clone`, namely `::generated::clone_<type>` -/\ndef vtableClone : VtFn := {}\n\n", vtable_fn(&lower, "clone")?));
    out.push_str(&format!("/-- `call_runtime`: … a drop function when `needs_drop`, namely `::generated::drop_<type>` -/\ndef vtableDrop : VtFn := {}\n\n", vtable_fn(&lower, "drop")?));
    out.push_str("/-- `needs_drop` / `needs_clone` by name -/\ndef arms : Fn → List (KPat × NeedArm)\n  | .drop => needsDropArms\n  | .clone => needsCloneArms\n\n");
    out.push_str("/-- the loops and the call decisions as the current source has them -/\ndef prog : Prog :=\n  { dropRecord := dropRecord, dropEnumPre := dropEnumPre, dropEnum := dropEnum,\n    cloneRecord := cloneRecord, cloneEnumPre := cloneEnumPre, cloneEnum := cloneEnum,\n    dropCall := dropCall, cloneCall := cloneCall }\n\nend RotoV.Gen.GlueLoops\n");
    Ok(out)
}


// ---------------------------------------------------------------------------------------------
// listown

struct ImplFns {
    want: &'static str,
    found: Vec<syn::ImplItemFn>,
}
impl<'ast> Visit<'ast> for ImplFns {
    fn visit_item_impl(&mut self, i: &'ast syn::ItemImpl) {
        if i.trait_.is_none() && norm(&i.self_ty) == self.want {
            for it in &i.items {
                if let syn::ImplItem::Fn(f) = it {
                    self.found.push(f.clone());
                }
            }
        }
        syn::visit::visit_item_impl(self, i);
    }
}

/// the name of the (single) parameter of type `NonNull<T>`
fn ptr_param(sig: &syn::Signature) -> Option<String> {
    let mut out = vec![];
    for a in &sig.inputs {
        if let syn::FnArg::Typed(t) = a {
            if norm(&t.ty) == "NonNull<T>" {
                out.push(norm(&t.pat));
            }
        }
    }
    if out.len() == 1 { out.pop() } else { None }
}

fn idents(s: &str) -> Vec<&str> {
    s.split(|c: char| !(c.is_alphanumeric() || c == '_')).filter(|w| !w.is_empty()).collect()
}

fn mentions(s: &str, id: &str) -> bool {
    idents(s).iter().any(|w| *w == id)
}

fn is_hook_stmt(st: &syn::Stmt) -> bool {
    norm(st).starts_with("#[cfg(feature=\"verif-hooks\")]")
}

/// what `RawList::<name>` does with its element pointer: `.borrow` (only handed to `eq_fn`) or
/// `.moveIn` (its bytes are copied into the list's storage and the length is counted up)
fn raw_kind(f: &syn::ImplItemFn) -> Result<&'static str, String> {
    let name = f.sig.ident.to_string();
    let q = ptr_param(&f.sig).ok_or(format!("RawList::{name}: no single NonNull<T> parameter"))?;
    let body = norm(&f.block);
    let uses = idents(&body).iter().filter(|w| **w == q).count();
    let eq_uses = body.matches(&format!("(self.vtable.eq_fn)(elem.as_ptr(),{q}.as_ptr())")).count();
    if uses > 0 && uses == eq_uses && !body.contains("drop") {
        return Ok(".borrow");
    }
    if uses == 1
        && body.contains(&format!("letsrc={q}.cast::<u8>().as_ptr();"))
        && body.contains("std::ptr::copy_nonoverlapping(src,dst,size)")
        && body.ends_with("self.len+=1;}")
        && !body.contains("return")
        && !body.contains("drop")
    {
        return Ok(".moveIn");
    }
    Err(format!("RawList::{name}: what it does with `{q}` is outside the translated subset"))
}

fn own_stmts(f: &syn::ImplItemFn, raw: &[(String, &'static str)]) -> Result<Vec<String>, String> {
    let name = f.sig.ident.to_string();
    let p = ptr_param(&f.sig).unwrap();
    let kind_of = |m: &str| -> Result<&'static str, String> {
        raw.iter().find(|r| r.0 == m).map(|r| r.1).ok_or(format!("ErasedList::{name}: `RawList::{m}` does not take an element pointer"))
    };
    let mut out = vec![];
    let n = f.block.stmts.len();
    for (i, st) in f.block.stmts.iter().enumerate() {
        if is_hook_stmt(st) {
            continue;
        }
        let s = norm(st);
        let tail = i + 1 == n && !s.ends_with(';');
        if s == "letraw=self.0.lock().unwrap();" {
            out.push(".lock".to_string());
            continue;
        }
        // let res = unsafe { raw.<m>(p) };
        if let Some(r) = s.strip_prefix("letres=unsafe{raw.") {
            if let Some(m) = r.strip_suffix(&format!("({p})}};")) {
                out.push(kind_of(m)?.to_string());
                continue;
            }
        }
        // unsafe { self.0.lock().unwrap().<m>(p) }   (statement or tail)
        if let Some(r) = s.strip_prefix("unsafe{self.0.lock().unwrap().") {
            let r = r.strip_suffix(';').unwrap_or(r);
            if let Some(m) = r.strip_suffix(&format!("({p})}}")) {
                out.push(".lock".to_string());
                out.push(kind_of(m)?.to_string());
                if tail {
                    out.push(".ret".to_string());
                }
                continue;
            }
        }
        if s == format!("ifletSome(drop_fn)=raw.vtable.drop_fn{{unsafe{{drop_fn({p}.as_ptr())}};}}") {
            out.push(".releaseIfDroppable".to_string());
            continue;
        }
        if !mentions(&s, &p) {
            if tail || s.starts_with("return") {
                out.push(".ret".to_string());
                continue;
            }
            if let syn::Stmt::Expr(syn::Expr::If(e), _) = st {
                let body = norm(&e.then_branch);
                if e.else_branch.is_none() && body.starts_with("{return") && e.then_branch.stmts.len() == 1 {
                    out.push(".retIf".to_string());
                    continue;
                }
            }
            if let syn::Stmt::Local(_) = st {
                if !s.contains("return") && !s.contains('?') {
                    continue;
                }
            }
        }
        return Err(format!("ErasedList::{name}: statement outside the translated subset: {}", st.to_token_stream()));
    }
    Ok(out)
}

/// `(script method, ErasedList function its DynVal argument is handed to)` from the text of the
/// `library!` block in src/runtime/basic.rs
fn dynval_entries(repo: &Path) -> Result<Vec<(String, String)>, String> {
    let p = repo.join("src/runtime/basic.rs");
    let text = std::fs::read_to_string(&p).map_err(|e| format!("cannot read {}: {e}", p.display()))?;
    let mut flat = String::new();
    for line in text.lines() {
        let code = match line.find("//") {
            Some(i) => &line[..i],
            None => line,
        };
        flat.extend(code.chars().filter(|c| !c.is_whitespace()));
    }
    let mut out = vec![];
    let mut from = 0;
    while let Some(off) = flat[from..].find(":DynVal)") {
        let at = from + off;
        from = at + 1;
        // fn<name>(self,<arg>:DynVal)
        let head = &flat[..at];
        let open = head.rfind('(').ok_or("basic.rs: `(` before a DynVal parameter not found")?;
        let params = &head[open + 1..];
        let Some(arg) = params.strip_prefix("self,") else {
            return Err(format!("basic.rs: a function with a DynVal parameter has the parameters `({params}: DynVal)`, expected `(self, <arg>: DynVal)`"));
        };
        let fn_at = head[..open].rfind("fn").ok_or("basic.rs: `fn` not found")?;
        let name = &head[fn_at + 2..open];
        if name.is_empty() || !name.chars().all(|c| c.is_alphanumeric() || c == '_') {
            return Err(format!("basic.rs: cannot read the name of the function taking `{arg}: DynVal`"));
        }
        // the body: from the next `{` to its match
        let rest = &flat[at..];
        let b0 = rest.find('{').ok_or("basic.rs: body not found")?;
        let mut depth = 0usize;
        let mut end = None;
        for (i, ch) in rest[b0..].char_indices() {
            match ch {
                '{' => depth += 1,
                '}' => {
                    depth -= 1;
                    if depth == 0 {
                        end = Some(b0 + i);
                        break;
                    }
                }
                _ => {}
            }
        }
        let body = &rest[b0..=end.ok_or("basic.rs: unbalanced body")?];
        if !body.contains(&format!("letptr=unsafe{{NonNull::new_unchecked({arg}.0)}};")) || idents(body).iter().filter(|w| **w == arg).count() != 1 {
            return Err(format!("basic.rs: `{name}` does something else with its DynVal `{arg}` than turning it into `ptr`"));
        }
        let calls: Vec<&str> = body.match_indices("(ptr)").map(|(i, _)| {
            let h = &body[..i];
            let j = h.rfind(|c: char| !(c.is_alphanumeric() || c == '_' || c == '.')).map(|j| j + 1).unwrap_or(0);
            &h[j..]
        }).collect();
        // (whitespace is gone: `let ptr =` reads `letptr=`; `ptr` occurs there and in the call)
        if calls.len() != 1 || body.matches("ptr").count() != 2 || body.matches("letptr=").count() != 1 {
            return Err(format!("basic.rs: `{name}` must hand `ptr` to exactly one function, found {calls:?}"));
        }
        let callee = calls[0].strip_prefix("self.").ok_or(format!("basic.rs: `{name}` hands `ptr` to `{}`, expected a method of the list", calls[0]))?;
        // The hand-off must be UNCONDITIONAL: the argument belongs to this function (the MIR has
        // no Drop for it) and only the ErasedList function releases or stores it, so a path that
        // leaves before the call — an early return for an empty list, a `?`, a branch — forgets
        // the value.  Between `let ptr = …;` and the call nothing but `unsafe {` or
        // `let <name> = unsafe {` may stand.
        let i = body.find("(ptr)").unwrap();
        let before = body[..i].strip_suffix(calls[0]).unwrap_or(&body[..i]);
        let lead = format!("{{letptr=unsafe{{NonNull::new_unchecked({arg}.0)}};");
        let mid = before.strip_prefix(lead.as_str()).ok_or(format!(
            "basic.rs: `{name}` does something before it turns its DynVal `{arg}` into `ptr` (`{}`): the hand-off to `{callee}` must be unconditional", &before[..before.len().min(60)]))?;
        let plain_let = mid.strip_prefix("let").and_then(|r| r.strip_suffix("=unsafe{"))
            .is_some_and(|id| !id.is_empty() && id.chars().all(|c| c.is_alphanumeric() || c == '_'));
        if !(mid == "unsafe{" || plain_let) {
            return Err(format!("basic.rs: `{name}` has `{mid}` between `let ptr` and the call of `{callee}`: every path must hand the element to the list function (an early exit forgets an owned value)"));
        }
        out.push((name.to_string(), callee.to_string()));
    }
    if out.is_empty() {
        return Err("basic.rs: no list method with a DynVal parameter found".into());
    }
    Ok(out)
}

fn listown(repo: &Path) -> Result<String, String> {
    let file = find::parse(repo, "src/value/list.rs")?;
    let mut raw = ImplFns { want: "RawList", found: vec![] };
    raw.visit_file(&file);
    let mut raw_kinds: Vec<(String, &'static str)> = vec![];
    for f in &raw.found {
        if f.sig.inputs.iter().any(|a| matches!(a, syn::FnArg::Typed(t) if norm(&t.ty) == "NonNull<T>")) {
            raw_kinds.push((f.sig.ident.to_string(), raw_kind(f)?));
        }
    }
    let mut er = ImplFns { want: "ErasedList", found: vec![] };
    er.visit_file(&file);
    let mut fns: Vec<(String, String, Vec<String>)> = vec![];
    for f in &er.found {
        let has_ptr = f.sig.inputs.iter().any(|a| matches!(a, syn::FnArg::Typed(t) if norm(&t.ty) == "NonNull<T>"));
        if !has_ptr {
            continue;
        }
        // hook-only additions are not part of the product
        if f.attrs.iter().any(|a| norm(a).contains("verif-hooks")) {
            continue;
        }
        let p = ptr_param(&f.sig).ok_or(format!("ErasedList::{}: more than one NonNull<T> parameter", f.sig.ident))?;
        fns.push((f.sig.ident.to_string(), p, own_stmts(f, &raw_kinds)?));
    }
    if fns.is_empty() {
        return Err("list.rs: no function of `impl ErasedList` takes an element pointer".into());
    }
    let entries = dynval_entries(repo)?;
    let mut out = String::new();
    out.push_str("/- GENERATED by /verif/extract from src/value/list.rs (functions of `impl ErasedList` that receive an element by raw pointer) and src/runtime/basic.rs (list methods with a DynVal parameter) — do not edit. -/\nimport RotoV.Model.ListOwn\nnamespace RotoV.Gen.ListOwn\nopen RotoV.ListOwn\n\n");
    for (i, (name, p, steps)) in fns.iter().enumerate() {
        out.push_str(&format!("/-- `ErasedList::{name}({p}: NonNull<T>)` -/\ndef f{i} : List OStmt := [{}]\n\n", steps.join(", ")));
    }
    out.push_str(&format!("/-- {} -/\ndef fns : List (Nat × List OStmt) := [{}]\n\n",
        fns.iter().enumerate().map(|(i, f)| format!("{i} = {}", f.0)).collect::<Vec<_>>().join(", "),
        (0..fns.len()).map(|i| format!("({i}, f{i})")).collect::<Vec<_>>().join(", ")));
    let mut idx = vec![];
    let mut doc = vec![];
    for (m, callee) in &entries {
        let i = fns.iter().position(|f| f.0 == *callee).ok_or(format!("basic.rs: `{m}` hands its DynVal to `ErasedList::{callee}`, which takes no element pointer"))?;
        idx.push(i.to_string());
        doc.push(format!("List.{m} → {callee}"));
    }
    out.push_str(&format!("/-- the function each script-visible list method hands its `DynVal` argument to: {} -/\ndef entries : List Nat := [{}]\n\nend RotoV.Gen.ListOwn\n", doc.join(", "), idx.join(", ")));
    Ok(out)
}


// ---------------------------------------------------------------------------------------------
// mirlower → Generated/MirLower.lean: the ownership-relevant decisions of the MIR → LIR lowering
// of a block (src/lir/lower.rs), as values of `RotoV.MirLower`:
//
// `Lowerer::block`, statement by statement (`BlockStep`):
//   self.blocks.push(Block { label: block.label, instructions: Vec::new() });      newBlock
//   for <i> in block.instructions { self.instruction(<i>) }                       forEach [.lower]
// `Lowerer::instruction`: the arms of `match instruction` as (IKind, LowerFn): the body of an arm
//   must be exactly one call `self.<method>(<the fields its pattern binds, in order>)`.
// `Lowerer::assign`: `let to = self.location(to, ty);`, then the arms of `let op = match value`
//   as (VKind, AssignAct):
//   { let from = self.location(place, ty); if let (Some(to), Some(from)) = (to, from)
//     { self.call_clone_of(to, from, ty); } return; }                              cloneOf .place
//   { …address of the constant / offset into the context…; if let Some(to) = to
//     { self.call_clone_of(to, <that location>, ty); } return; }                   cloneOf .global
//   any arm whose text mentions no clone / drop call and no `return` other than the
//   `let Some(op) = … else { return; }` of a value without a representation        operand
//   and finally `if let Some(to) = to { self.move_val(to, op, ty); }`.
// `Lowerer::drop`, statement by statement (`DropStep`): locOrReturn, dropAtPointer.
// `move_val`, `r#return`, `switch`, `set_discriminant`, `get_discriminant`, `location` must not
// mention a clone / drop call at all. Hook statements are skipped; anything else is an
// extraction failure.

const OWN_WORDS: [&str; 8] = ["call_clone_of", "call_clone_function", "call_drop_of", "emit_clone", "Instruction::Drop", "Instruction::Clone", "::generated::", "drop_fn"];

fn lowerer_fn(file: &syn::File, name: &str) -> Result<find::FnBody, String> {
    find::func(file, name, Some("Lowerer")).map_err(|e| format!("src/lir/lower.rs: {e}"))
}

fn mentions_ownership(s: &str) -> Option<&'static str> {
    OWN_WORDS.iter().copied().find(|w| s.contains(w))
}

fn pat_fields(p: &syn::Pat) -> Result<(String, Vec<String>), String> {
    match p {
        syn::Pat::Struct(s) => {
            let mut names = vec![];
            for f in &s.fields {
                let m = norm(&f.member);
                if norm(&f.pat) != m {
                    return Err(format!("field `{m}` bound under another name"));
                }
                names.push(m);
            }
            if s.rest.is_some() {
                return Err("pattern with `..`".into());
            }
            Ok((s.path.segments.last().map(|x| x.ident.to_string()).unwrap_or_default(), names))
        }
        syn::Pat::TupleStruct(s) => Ok((
            s.path.segments.last().map(|x| x.ident.to_string()).unwrap_or_default(),
            s.elems.iter().map(norm).collect(),
        )),
        o => Err(format!("unexpected pattern `{}`", norm(o))),
    }
}

fn mirlower(repo: &Path) -> Result<String, String> {
    let file = find::parse(repo, "src/lir/lower.rs")?;
    // --- block
    let f = lowerer_fn(&file, "block")?;
    let mut block = vec![];
    for st in f.block.stmts.iter().filter(|s| !is_hook(s)) {
        let s = norm(st);
        if s == "self.blocks.push(Block{label:block.label,instructions:Vec::new(),});" {
            block.push(".newBlock".to_string());
            continue;
        }
        if let syn::Stmt::Expr(syn::Expr::ForLoop(l), _) = st {
            let v = norm(&l.pat);
            let it = norm(&l.expr);
            if it != "block.instructions" && it != "block.instructions.into_iter()" {
                return Err(format!("Lowerer::block: loop over `{it}` instead of the block's instructions"));
            }
            let mut body = vec![];
            for b in l.body.stmts.iter().filter(|s| !is_hook(s)) {
                let t = norm(b);
                if t == format!("self.instruction({v})") || t == format!("self.instruction({v});") {
                    body.push(".lower".to_string());
                } else {
                    return Err(format!("Lowerer::block: statement in the instruction loop outside the translated subset: `{t}`"));
                }
            }
            block.push(format!(".forEach [{}]", body.join(", ")));
            continue;
        }
        return Err(format!("Lowerer::block: statement outside the translated subset (every MIR instruction must be lowered on its own, in order): `{}`", s.chars().take(160).collect::<String>()));
    }
    // --- instruction
    let f = lowerer_fn(&file, "instruction")?;
    let ms = find::matches_on(&f.block, "instruction");
    if ms.len() != 1 || f.block.stmts.len() != 1 {
        return Err("Lowerer::instruction: expected exactly `match instruction { … }`".into());
    }
    let mut instr = vec![];
    for a in &ms[0].arms {
        if a.guard.is_some() {
            return Err("Lowerer::instruction: guarded arm".into());
        }
        let (variant, fields) = pat_fields(&a.pat).map_err(|e| format!("Lowerer::instruction: {e}"))?;
        let ik = match variant.as_str() {
            "Assign" => ".assign",
            "Jump" => ".jump",
            "Switch" => ".switch",
            "SetDiscriminant" => ".setDisc",
            "Return" => ".ret",
            "Drop" => ".drop",
            o => return Err(format!("Lowerer::instruction: unknown MIR instruction `{o}`")),
        };
        let b = norm(&a.body);
        let b = b.trim_start_matches('{').trim_end_matches('}').trim_end_matches(';');
        let args = fields.join(",");
        let lf = [("assign", ".assign"), ("emit_jump", ".emitJump"), ("switch", ".switch"), ("set_discriminant", ".setDisc"), ("r#return", ".ret"), ("drop", ".drop")]
            .iter()
            .find(|(m, _)| b == format!("self.{m}({args})"))
            .map(|x| x.1)
            .ok_or(format!("Lowerer::instruction: arm of `{variant}` is not a single call of a lowering method with the bound fields in order: `{b}`"))?;
        instr.push(format!("({ik}, {lf})"));
    }
    // --- assign
    let f = lowerer_fn(&file, "assign")?;
    let stmts: Vec<&syn::Stmt> = f.block.stmts.iter().filter(|s| !is_hook(s)).collect();
    if stmts.len() != 3
        || norm(stmts[0]) != "letto=self.location(to,ty);"
        || !norm(stmts[1]).starts_with("letop=matchvalue{")
        || norm(stmts[2]) != "ifletSome(to)=to{self.move_val(to,op,ty);}"
    {
        return Err("Lowerer::assign: expected `let to = self.location(to, ty); let op = match value { … }; if let Some(to) = to { self.move_val(to, op, ty); }`".into());
    }
    let ms = find::matches_on(&f.block, "value");
    if ms.len() != 1 {
        return Err("Lowerer::assign: expected one `match value`".into());
    }
    let mut assign = vec![];
    for a in &ms[0].arms {
        if a.guard.is_some() {
            return Err("Lowerer::assign: guarded arm".into());
        }
        let variant = match &a.pat {
            syn::Pat::Struct(s) => s.path.segments.last().map(|x| x.ident.to_string()),
            syn::Pat::TupleStruct(s) => s.path.segments.last().map(|x| x.ident.to_string()),
            _ => None,
        }
        .ok_or(format!("Lowerer::assign: unexpected pattern `{}`", norm(&a.pat)))?;
        let vk = match variant.as_str() {
            "Const" => ".const",
            "Constant" => ".constant",
            "Context" => ".context",
            "Discriminant" => ".disc",
            "Not" => ".not",
            "Negate" => ".negate",
            "Move" => ".move",
            "Clone" => ".clone",
            "BinOp" => ".binop",
            "Call" => ".call",
            "CallRuntime" => ".callRuntime",
            o => return Err(format!("Lowerer::assign: unknown MIR value `{o}`")),
        };
        let b = norm(&a.body);
        let act = if variant == "Clone" {
            if norm(&a.pat) != "mir::Value::Clone(place)"
                || b != "{letfrom=self.location(place,ty);iflet(Some(to),Some(from))=(to,from){self.call_clone_of(to,from,ty);}return;}"
            {
                return Err(format!("Lowerer::assign: the Clone arm is outside the translated subset: `{b}`"));
            }
            ".cloneOf .place"
        } else if variant == "Constant" || variant == "Context" {
            let tail_const = "ifletSome(to)=to{self.call_clone_of(to,Location::Pointer{base:ptr_var,offset:0,},ty,);}return;}";
            let tail_ctx = "ifletSome(to)=to{self.call_clone_of(to,from,ty);}return;}";
            let head = b.strip_suffix(tail_const).or_else(|| b.strip_suffix(tail_ctx));
            match head {
                Some(h) if mentions_ownership(h).is_none() && !h.contains("return") => ".cloneOf .global",
                _ => return Err(format!("Lowerer::assign: the {variant} arm is outside the translated subset: `{b}`")),
            }
        } else {
            if let Some(w) = mentions_ownership(&b) {
                return Err(format!("Lowerer::assign: the {variant} arm mentions `{w}`: outside the translated subset"));
            }
            let without_else = b.replace("else{return;};", "");
            if without_else.contains("return") {
                return Err(format!("Lowerer::assign: the {variant} arm returns early: `{b}`"));
            }
            ".operand"
        };
        assign.push(format!("({vk}, {act})"));
    }
    // --- drop
    let f = lowerer_fn(&file, "drop")?;
    let mut drop = vec![];
    for st in f.block.stmts.iter().filter(|s| !is_hook(s)) {
        let s = norm(st);
        if s == "letSome(var)=self.location(val,ty)else{return;};" {
            drop.push(".locOrReturn");
        } else if s == "matchvar{Location::Var(_var)=>{}Location::Pointer{base,offset}=>{letop=self.offset(base,offsetasu32);self.call_drop_of(op.into(),ty);}};" {
            drop.push(".dropAtPointer");
        } else if matches!(st, syn::Stmt::Macro(_)) || s.starts_with("//") {
            continue;
        } else {
            return Err(format!("Lowerer::drop: statement outside the translated subset: `{s}`"));
        }
    }
    // --- the rest of what a block's lowering runs calls no clone / drop function
    for name in ["move_val", "r#return", "switch", "set_discriminant", "get_discriminant", "location", "get_field"] {
        let f = lowerer_fn(&file, name.trim_start_matches("r#")).or_else(|_| lowerer_fn(&file, name))?;
        if let Some(w) = mentions_ownership(&norm(&f.block)) {
            return Err(format!("Lowerer::{name} mentions `{w}`: a clone / drop call outside `assign` / `drop`"));
        }
    }
    let mut out = String::new();
    out.push_str("/- GENERATED by /verif/extract from src/lir/lower.rs (Lowerer::block / instruction / assign / drop: the ownership-relevant decisions of the MIR → LIR lowering) — do not edit. -/\nimport RotoV.Model.MirLower\nnamespace RotoV.Gen.MirLower\nopen RotoV.MirLower\n\n");
    out.push_str(&format!("/-- `Lowerer::block`, statement by statement -/\ndef block : List BlockStep := [{}]\n\n", block.join(", ")));
    out.push_str(&format!("/-- `Lowerer::instruction`: the arms of `match instruction` -/\ndef instr : List (IKind × LowerFn) := [{}]\n\n", instr.join(", ")));
    out.push_str(&format!("/-- `Lowerer::assign`: the arms of `let op = match value` -/\ndef assign : List (VKind × AssignAct) := [{}]\n\n", assign.join(", ")));
    out.push_str(&format!("/-- `Lowerer::drop`, statement by statement -/\ndef drop : List DropStep := [{}]\n\n", drop.join(", ")));
    out.push_str("/-- the lowering as the current source has it -/\ndef lowering : Lowering := { block := block, instr := instr, assign := assign, drop := drop }\n\nend RotoV.Gen.MirLower\n");
    Ok(out)
}
