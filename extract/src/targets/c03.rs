//! Translator targets owned by property C03.
#[allow(unused_imports)]
use super::{Gen, Target};

pub const TARGETS: &[Target] = &[];
