//! Translator targets owned by property C03.
//!
//! `glueloops` → `Generated/GlueLoops.lean`: the per-field loops of the generated
//! drop and clone functions (`src/lir/lower/drops.rs`, `src/lir/lower/clones.rs`),
//! statement by statement in source order, as values of `RotoV.Glue.Step`:
//!
//! ```text
//! let Some(layout) = self.layout_of(ty) else { continue; };          layoutOrSkip
//! let new_offset = builder.add(&layout);                             add
//! if !self.needs_drop(ty) { continue; }                              skipUnlessNeedsDrop
//! if !self.needs_clone(ty) { continue; }                             skipUnlessNeedsDrop   (same predicate)
//! let x = self.offset(<base>.clone(), new_offset as u32);            ptr x <base>
//! let x = Location::Pointer { base: <base>.clone(), offset: new_offset };   ptr x <base>
//! self.call_drop_of(x.into(), ty);                                   callDrop x
//! self.call_clone_of(a, b, ty);                                      callClone a b
//! ```
//! plus, for the enum functions, what is added to the fresh `LayoutBuilder` of a
//! variant before its fields (`builder.add(&Layout::of::<u8>())` → `addTag`).
//! `<base>` is `root_var` (the value operated on) or `return_var` (the clone's
//! destination). Any other statement in these loops is an extraction failure:
//! the Lean model would not know what it does.
#[allow(unused_imports)]
use super::{Gen, Target};
use crate::find;
use quote::ToTokens;
use std::path::Path;
use syn::visit::Visit;

pub const TARGETS: &[Target] = &[("glueloops", "GlueLoops", glueloops as Gen)];

fn norm<T: ToTokens>(t: &T) -> String {
    t.to_token_stream().to_string().replace(' ', "")
}

struct Loops(Vec<syn::ExprForLoop>);
impl<'ast> Visit<'ast> for Loops {
    fn visit_expr_for_loop(&mut self, l: &'ast syn::ExprForLoop) {
        self.0.push(l.clone());
        syn::visit::visit_expr_for_loop(self, l);
    }
}

fn base(s: &str) -> Result<&'static str, String> {
    match s {
        "root_var" => Ok(".root"),
        "return_var" => Ok(".ret"),
        o => Err(format!("unknown base variable `{o}`")),
    }
}

fn lvar(s: &str) -> Result<&'static str, String> {
    match s {
        "var" => Ok(".var"),
        "to" => Ok(".to"),
        "from" => Ok(".from"),
        o => Err(format!("unknown local `{o}`")),
    }
}

/// one statement of a field loop → a `Step`
fn step(st: &syn::Stmt) -> Result<String, String> {
    let s = norm(st);
    let ty_ok = |t: &str| t == "ty" || t == "*ty";
    if s == "letSome(layout)=self.layout_of(ty)else{continue;};" {
        return Ok(".layoutOrSkip".into());
    }
    if s == "letnew_offset=builder.add(&layout);" {
        return Ok(".add".into());
    }
    for pred in ["needs_drop", "needs_clone"] {
        if let Some(rest) = s.strip_prefix(&format!("if!self.{pred}(")) {
            if let Some(t) = rest.strip_suffix("){continue;}") {
                if ty_ok(t) {
                    return Ok(".skipUnlessNeedsDrop".into());
                }
            }
        }
    }
    if let Some(rest) = s.strip_prefix("let") {
        if let Some((x, rhs)) = rest.split_once('=') {
            if let Some(r) = rhs.strip_prefix("self.offset(") {
                if let Some(b) = r.strip_suffix(".clone(),new_offsetasu32);") {
                    return Ok(format!(".ptr {} {}", lvar(x)?, base(b)?));
                }
            }
            if let Some(r) = rhs.strip_prefix("Location::Pointer{base:") {
                if let Some(b) = r.strip_suffix(".clone(),offset:new_offset,};") {
                    return Ok(format!(".ptr {} {}", lvar(x)?, base(b)?));
                }
            }
        }
    }
    if let Some(r) = s.strip_prefix("self.call_drop_of(") {
        if let Some(a) = r.strip_suffix(");") {
            if let Some((x, t)) = a.split_once(".into(),") {
                if ty_ok(t) {
                    return Ok(format!(".callDrop {}", lvar(x)?));
                }
            }
        }
    }
    if let Some(r) = s.strip_prefix("self.call_clone_of(") {
        if let Some(a) = r.strip_suffix(");") {
            let parts: Vec<&str> = a.split(',').collect();
            if parts.len() == 3 && ty_ok(parts[2]) {
                return Ok(format!(".callClone {} {}", lvar(parts[0])?, lvar(parts[1])?));
            }
        }
    }
    Err(format!("statement outside the translated subset: {}", st.to_token_stream()))
}

/// the field loop of `fname` (the innermost `for` whose body has no further `for`)
/// and, for enum functions, the statements of the enclosing loop body between
/// `let mut builder = LayoutBuilder::new();` and the field loop
fn field_loop(file: &syn::File, fname: &str, is_enum: bool) -> Result<(Vec<String>, Vec<String>), String> {
    let f = find::func(file, fname, None)?;
    let mut ls = Loops(vec![]);
    ls.visit_block(&f.block);
    let expect = if is_enum { 2 } else { 1 };
    if ls.0.len() != expect {
        return Err(format!("{fname}: expected {expect} `for` loop(s), found {}", ls.0.len()));
    }
    let inner = ls.0.last().unwrap().clone();
    let head = format!("for {} in {}", norm(&inner.pat), norm(&inner.expr));
    let want = if is_enum { "for (ty,layout) in layouts" } else { "for &(_,ty) in fields" };
    if head != want {
        return Err(format!("{fname}: field loop is `{head}`, expected `{want}`"));
    }
    let mut steps = vec![];
    for st in &inner.body.stmts {
        steps.push(step(st).map_err(|e| format!("{fname}: {e}"))?);
    }
    let mut pre = vec![];
    if is_enum {
        let outer = &ls.0[0];
        let mut seen_builder = false;
        let mut seen_loop = false;
        for st in &outer.body.stmts {
            let s = norm(st);
            if s == "letmutbuilder=LayoutBuilder::new();" {
                seen_builder = true;
                continue;
            }
            if s.starts_with("for(ty,layout)inlayouts") {
                seen_loop = true;
                break;
            }
            if seen_builder {
                if s == "builder.add(&Layout::of::<u8>());" {
                    pre.push(".addTag".to_string());
                } else {
                    return Err(format!("{fname}: statement between the builder and the field loop outside the subset: {}", st.to_token_stream()));
                }
            }
        }
        if !seen_builder || !seen_loop {
            return Err(format!("{fname}: `let mut builder = LayoutBuilder::new();` followed by the field loop not found"));
        }
    } else {
        // the record functions create the builder right before the loop
        let body = norm(&f.block);
        if !body.contains("letmutbuilder=LayoutBuilder::new();for&(_,ty)infields") {
            return Err(format!("{fname}: the builder is not created right before the field loop"));
        }
    }
    Ok((pre, steps))
}

fn glueloops(repo: &Path) -> Result<String, String> {
    let drops = find::parse(repo, "src/lir/lower/drops.rs")?;
    let clones = find::parse(repo, "src/lir/lower/clones.rs")?;
    let (_, dr) = field_loop(&drops, "generate_drop_body_record", false)?;
    let (dpre, de) = field_loop(&drops, "generate_drop_body_enum", true)?;
    let (_, cr) = field_loop(&clones, "generate_clone_body_record", false)?;
    let (cpre, ce) = field_loop(&clones, "generate_clone_body_enum", true)?;
    let list = |v: &[String]| format!("[{}]", v.join(", "));
    let mut out = String::new();
    out.push_str("/- GENERATED by /verif/extract from src/lir/lower/drops.rs, src/lir/lower/clones.rs (field loops of the generated drop / clone functions) — do not edit. -/\nimport RotoV.Model.Glue\nnamespace RotoV.Gen.GlueLoops\nopen RotoV.Glue\n\n");
    out.push_str(&format!("/-- `generate_drop_body_record`: body of `for &(_, ty) in fields` -/\ndef dropRecord : List Step := {}\n\n", list(&dr)));
    out.push_str(&format!("/-- `generate_drop_body_enum`: added to a variant's fresh builder before its fields -/\ndef dropEnumPre : List Pre := {}\n\n", list(&dpre)));
    out.push_str(&format!("/-- `generate_drop_body_enum`: body of `for (ty, layout) in layouts` -/\ndef dropEnum : List Step := {}\n\n", list(&de)));
    out.push_str(&format!("/-- `generate_clone_body_record`: body of `for &(_, ty) in fields` -/\ndef cloneRecord : List Step := {}\n\n", list(&cr)));
    out.push_str(&format!("def cloneEnumPre : List Pre := {}\n\n", list(&cpre)));
    out.push_str(&format!("/-- `generate_clone_body_enum`: body of `for (ty, layout) in layouts` -/\ndef cloneEnum : List Step := {}\n\n", list(&ce)));
    out.push_str("/-- the four loops as the current source has them -/\ndef prog : Prog :=\n  { dropRecord := dropRecord, dropEnumPre := dropEnumPre, dropEnum := dropEnum,\n    cloneRecord := cloneRecord, cloneEnumPre := cloneEnumPre, cloneEnum := cloneEnum }\n\nend RotoV.Gen.GlueLoops\n");
    Ok(out)
}
