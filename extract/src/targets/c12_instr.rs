//! `c12instr` → `Generated/C12Instr.lean`: what property C12's LIR model must
//! cover, read from the sources on every run.
//!
//!  * `enum Instruction` of `src/lir/mod.rs`: every variant (in source order)
//!    with its fields — name and a class of its type (`Var`, `Operand`,
//!    `Vec<Operand>`, `Option<Operand>`, `Option<Var>`, `Option<(Var, IrType)>`,
//!    anything else). A field type that mentions `Var` / `Operand` in another
//!    shape is an extraction failure (a new way to carry a variable).
//!  * `FuncGen::instruction` of `src/codegen/mod.rs`: for every variant, the
//!    Cranelift operations its arm(s) emit that touch memory, control or other
//!    code (`store`, `load`, `emit_small_memory_copy`, `call`, `call_indirect`,
//!    stack slots, data objects, `return_`, `jump`, `Switch::emit`), in source
//!    order, helper methods of `FuncGen` called on `self` followed. A method
//!    whose name looks like a memory / call operation but is not known is an
//!    extraction failure. `#[cfg(feature = "verif-hooks")]` items are skipped.
//!
//!  * `lir::eval::eval` of `src/lir/eval.rs` (the reference interpreter that
//!    property C20 compares compiled code with): for every variant, the
//!    operations of its arm on the interpreter's memory (`mem.write`, `mem.copy`,
//!    `mem.read_slice`, `mem.allocate`, frames, raw pointers handed to Rust
//!    functions, calls through function pointers of the instruction,
//!    `call_runtime_function`, `ptr::write`).
//!
//! The Lean side (`Props/C12.lean`) classifies every generated kind by an
//! exhaustive `match`, so a NEW instruction kind breaks the build of the
//! theorem module until it is classified.
use crate::find;
use quote::ToTokens;
use std::collections::BTreeMap;
use std::path::Path;
use syn::visit::Visit;

fn field_ty(ty: &str) -> Result<&'static str, String> {
    Ok(match ty {
        "Var" => ".var",
        "Operand" => ".operand",
        "Vec<Operand>" => ".operands",
        "Option<Operand>" => ".optOperand",
        "Option<Var>" => ".optVar",
        "Option<(Var,IrType)>" => ".optVarTy",
        other => {
            // tokens `Var` / `Operand` inside another shape
            let toks: Vec<&str> = other
                .split(|c: char| !(c.is_alphanumeric() || c == '_'))
                .collect();
            if toks.iter().any(|t| *t == "Var" || *t == "Operand") {
                return Err(format!("field type `{other}` carries a variable in an unknown shape"));
            }
            ".other"
        }
    })
}

const KNOWN_OPS: &[(&str, &str)] = &[
    ("store", ".store"),
    ("load", ".load"),
    ("emit_small_memory_copy", ".memcpy"),
    ("call", ".call"),
    ("call_indirect", ".callIndirect"),
    ("create_sized_stack_slot", ".stackSlot"),
    ("stack_addr", ".stackAddr"),
    ("declare_anonymous_data", ".dataObject"),
    ("global_value", ".dataAddr"),
    ("func_addr", ".funcAddr"),
    ("return_", ".ret"),
    ("jump", ".jump"),
    ("emit", ".switchEmit"),
];

/// names that look like memory / call / control operations
const SUSPICIOUS: &[&str] = &[
    "store", "load", "mem", "atomic", "call", "stack", "write", "copy", "jump", "br", "trap", "return",
];

/// compile-time bookkeeping of the module / builder, not an emitted operation
const BENIGN: &[&str] = &[
    "declare_func_in_func", "declare_data_in_func", "define_data", "define", "get_block", "set_entry",
    "into_boxed_slice", "into_bytes", "frontend_config", "cranelift_type", "pointer_type", "inst_results",
    "as_str", "as_ref", "unwrap", "clone", "into", "iter", "map", "push", "extend", "len", "get", "ptr",
    "size", "align_shift", "entry", "or_insert_with", "create_block", "variable", "def", "operand", "ins",
    "use_var", "def_var", "declare_var",
];

struct Ops<'a> {
    helpers: &'a BTreeMap<String, syn::Block>,
    out: Vec<&'static str>,
    err: Option<String>,
    depth: usize,
}

impl<'ast> Visit<'ast> for Ops<'_> {
    fn visit_expr_method_call(&mut self, m: &'ast syn::ExprMethodCall) {
        // receiver and arguments first (evaluation order)
        syn::visit::visit_expr_method_call(self, m);
        let name = m.method.to_string();
        let on_self = m.receiver.to_token_stream().to_string() == "self";
        if on_self {
            if let Some(b) = self.helpers.get(&name) {
                if self.depth > 4 {
                    self.err = Some(format!("helper recursion too deep at {name}"));
                    return;
                }
                self.depth += 1;
                let b = b.clone();
                self.visit_block(&b);
                self.depth -= 1;
                return;
            }
        }
        if let Some((_, l)) = KNOWN_OPS.iter().find(|(n, _)| *n == name) {
            self.out.push(l);
        } else if !BENIGN.contains(&name.as_str())
            && SUSPICIOUS.iter().any(|s| name.contains(s))
        {
            self.err = Some(format!("method `{name}` looks like a memory / call / control operation and is not classified"));
        }
    }
    fn visit_stmt(&mut self, s: &'ast syn::Stmt) {
        if let syn::Stmt::Local(l) = s {
            if l.attrs.iter().any(|a| a.to_token_stream().to_string().contains("verif-hooks")) {
                return;
            }
        }
        syn::visit::visit_stmt(self, s);
    }
    fn visit_expr_macro(&mut self, m: &'ast syn::ExprMacro) {
        // `ice!(…)` aborts compilation; nothing is emitted
        let n = m.mac.path.to_token_stream().to_string();
        if n != "ice" && n != "format" && n != "panic" && n != "unreachable" {
            self.err = Some(format!("macro `{n}!` inside a codegen arm"));
        }
    }
}

/// memory operations of the reference LIR interpreter (`lir/eval.rs`)
const EVAL_MEM: &[(&str, &str)] = &[
    ("write", ".write"),
    ("copy", ".copy"),
    ("read_slice", ".read"),
    ("read_array", ".read"),
    ("allocate", ".alloc"),
    ("push_frame", ".pushFrame"),
    ("pop_frame", ".popFrame"),
    ("get", ".rawPtr"),
    ("offset_by", ".offsetBy"),
];

struct EvalOps {
    out: Vec<&'static str>,
    err: Option<String>,
}

impl<'ast> Visit<'ast> for EvalOps {
    fn visit_expr_method_call(&mut self, m: &'ast syn::ExprMethodCall) {
        syn::visit::visit_expr_method_call(self, m);
        let recv = m.receiver.to_token_stream().to_string().replace(' ', "");
        let name = m.method.to_string();
        if recv == "mem" {
            match EVAL_MEM.iter().find(|(n, _)| *n == name) {
                Some((_, l)) => self.out.push(l),
                None => self.err = Some(format!("unknown memory operation mem.{name}")),
            }
        } else if recv == "mem.pointers" && name == "push" {
            self.out.push(".newPointer");
        } else if recv.starts_with("mem.") && name != "len" {
            self.err = Some(format!("unknown operation on {recv}: {name}"));
        }
    }
    fn visit_expr_call(&mut self, c: &'ast syn::ExprCall) {
        syn::visit::visit_expr_call(self, c);
        let f = c.func.to_token_stream().to_string().replace(' ', "");
        if matches!(&*c.func, syn::Expr::Paren(_)) {
            // `(clone_fn)(to, from)`: a call through a function pointer of the instruction
            self.out.push(".callFnPtr");
        } else if f == "call_runtime_function" {
            self.out.push(".callRt");
        } else if f == "std::ptr::write" || f == "ptr::write" {
            self.out.push(".ptrWrite");
        } else if f.contains("ptr::") || f.contains("mem::") || f.contains("transmute") {
            self.err = Some(format!("unclassified raw-memory function `{f}` in an evaluator arm"));
        }
    }
    fn visit_stmt(&mut self, s: &'ast syn::Stmt) {
        if let syn::Stmt::Local(l) = s {
            if l.attrs.iter().any(|a| a.to_token_stream().to_string().contains("verif-hooks")) {
                return;
            }
        }
        syn::visit::visit_stmt(self, s);
    }
    fn visit_expr_block(&mut self, b: &'ast syn::ExprBlock) {
        if b.attrs.iter().any(|a| a.to_token_stream().to_string().contains("verif-hooks")) {
            return;
        }
        syn::visit::visit_expr_block(self, b);
    }
}

fn pat_variants(p: &syn::Pat, out: &mut Vec<String>) -> Result<(), String> {
    match p {
        syn::Pat::Struct(s) => out.push(s.path.segments.last().unwrap().ident.to_string()),
        syn::Pat::TupleStruct(s) => out.push(s.path.segments.last().unwrap().ident.to_string()),
        syn::Pat::Path(s) => out.push(s.path.segments.last().unwrap().ident.to_string()),
        syn::Pat::Or(o) => {
            for c in &o.cases {
                pat_variants(c, out)?;
            }
        }
        other => return Err(format!("codegen arm with pattern `{}`", other.to_token_stream())),
    }
    Ok(())
}

fn lower_first(s: &str) -> String {
    let mut c = s.chars();
    match c.next() {
        Some(f) => f.to_lowercase().collect::<String>() + c.as_str(),
        None => String::new(),
    }
}

pub fn c12instr(repo: &Path) -> Result<String, String> {
    let lir = find::parse(repo, "src/lir/mod.rs")?;
    let codegen = find::parse(repo, "src/codegen/mod.rs")?;

    // 1. the enum
    let mut variants: Vec<(String, Vec<(String, String)>)> = vec![];
    let mut seen = 0;
    for it in &lir.items {
        if let syn::Item::Enum(e) = it {
            if e.ident == "Instruction" {
                seen += 1;
                for v in &e.variants {
                    if v.attrs.iter().any(|a| a.to_token_stream().to_string().contains("verif-hooks")) {
                        continue;
                    }
                    let mut fs = vec![];
                    for (i, f) in v.fields.iter().enumerate() {
                        let name = f.ident.as_ref().map(|x| x.to_string()).unwrap_or(format!("{i}"));
                        let ty = f.ty.to_token_stream().to_string().replace(' ', "");
                        fs.push((name, ty));
                    }
                    variants.push((v.ident.to_string(), fs));
                }
            }
        }
    }
    if seen != 1 || variants.is_empty() {
        return Err(format!("enum Instruction: {seen} definitions found in src/lir/mod.rs"));
    }

    // 2. codegen arms
    let mut helpers: BTreeMap<String, syn::Block> = BTreeMap::new();
    for it in &codegen.items {
        if let syn::Item::Impl(i) = it {
            let ty = i.self_ty.to_token_stream().to_string().replace(' ', "");
            if i.trait_.is_none() && ty.starts_with("FuncGen") {
                for ii in &i.items {
                    if let syn::ImplItem::Fn(f) = ii {
                        if f.attrs.iter().any(|a| a.to_token_stream().to_string().contains("verif-hooks")) {
                            continue;
                        }
                        helpers.insert(f.sig.ident.to_string(), f.block.clone());
                    }
                }
            }
        }
    }
    let body = helpers
        .get("instruction")
        .ok_or("FuncGen::instruction not found in src/codegen/mod.rs")?
        .clone();
    let ms = find::matches_on(&body, "instruction");
    if ms.len() != 1 {
        return Err(format!("FuncGen::instruction: {} `match instruction` found", ms.len()));
    }
    let mut ops: BTreeMap<String, Vec<&'static str>> = BTreeMap::new();
    for arm in &ms[0].arms {
        let mut vs = vec![];
        pat_variants(&arm.pat, &mut vs)?;
        if arm.guard.is_some() {
            return Err("guarded arm in FuncGen::instruction".into());
        }
        let mut o = Ops { helpers: &helpers, out: vec![], err: None, depth: 0 };
        o.visit_expr(&arm.body);
        if let Some(e) = o.err {
            return Err(format!("codegen arm {}: {e}", vs.join("|")));
        }
        for v in vs {
            ops.entry(v).or_default().extend(o.out.iter().copied());
        }
    }
    for (v, _) in &variants {
        if !ops.contains_key(v) {
            return Err(format!("no codegen arm for Instruction::{v}"));
        }
    }
    for v in ops.keys() {
        if !variants.iter().any(|(n, _)| n == v) {
            return Err(format!("codegen arm for unknown variant {v}"));
        }
    }

    // 2b. the reference interpreter's arms
    let evalf = find::parse(repo, "src/lir/eval.rs")?;
    let eval_body = find::func(&evalf, "eval", None)?.block;
    let ems = find::matches_on(&eval_body, "instruction");
    if ems.len() != 1 {
        return Err(format!("lir::eval::eval: {} `match instruction` found", ems.len()));
    }
    let mut eops: BTreeMap<String, Vec<&'static str>> = BTreeMap::new();
    for arm in &ems[0].arms {
        let mut vs = vec![];
        pat_variants(&arm.pat, &mut vs)?;
        if arm.guard.is_some() {
            return Err("guarded arm in lir::eval::eval".into());
        }
        let mut o = EvalOps { out: vec![], err: None };
        o.visit_expr(&arm.body);
        if let Some(e) = o.err {
            return Err(format!("evaluator arm {}: {e}", vs.join("|")));
        }
        for v in vs {
            eops.entry(v).or_default().extend(o.out.iter().copied());
        }
    }
    for (v, _) in &variants {
        if !eops.contains_key(v) {
            return Err(format!("no evaluator arm for Instruction::{v}"));
        }
    }

    // 3. emit
    let mut field_names: Vec<String> = vec![];
    for (_, fs) in &variants {
        for (n, _) in fs {
            if !field_names.contains(n) {
                field_names.push(n.clone());
            }
        }
    }
    let mut s = String::new();
    s.push_str("/- GENERATED by /verif/extract (target c12instr) from src/lir/mod.rs (enum Instruction) and src/codegen/mod.rs (FuncGen::instruction) — do not edit. -/\nnamespace RotoV.Gen.C12Instr\n\n");
    s.push_str("inductive Kind\n");
    for (v, _) in &variants {
        s.push_str(&format!("  | k{v}\n"));
    }
    s.push_str("  deriving DecidableEq, Repr\n\n");
    s.push_str(&format!(
        "def kinds : List Kind := [{}]\n\n",
        variants.iter().map(|(v, _)| format!(".k{v}")).collect::<Vec<_>>().join(", ")
    ));
    s.push_str("def Kind.name : Kind → String\n");
    for (v, _) in &variants {
        s.push_str(&format!("  | .k{v} => \"{v}\"\n"));
    }
    s.push_str("\ndef Kind.ofName? (s : String) : Option Kind := kinds.find? (fun k => k.name == s)\n\n");
    s.push_str("inductive FieldTy\n  | var | operand | operands | optOperand | optVar | optVarTy | other\n  deriving DecidableEq, Repr\n\n");
    s.push_str("inductive Field\n");
    for n in &field_names {
        s.push_str(&format!("  | f_{n}\n"));
    }
    s.push_str("  deriving DecidableEq, Repr\n\n");
    s.push_str("def fields : Kind → List (Field × FieldTy)\n");
    for (v, fs) in &variants {
        let mut l = vec![];
        for (n, t) in fs {
            l.push(format!("(.f_{n}, {})", field_ty(t).map_err(|e| format!("Instruction::{v}.{n}: {e}"))?));
        }
        s.push_str(&format!("  | .k{v} => [{}]\n", l.join(", ")));
    }
    s.push_str("\ninductive CgOp\n");
    let mut all_ops: Vec<&str> = KNOWN_OPS.iter().map(|(_, l)| *l).collect();
    all_ops.dedup();
    for o in &all_ops {
        s.push_str(&format!("  | {}\n", lower_first(o.trim_start_matches('.'))));
    }
    s.push_str("  deriving DecidableEq, Repr\n\n");
    s.push_str("/-- operations the machine-code generator emits for each kind (source order) -/\ndef codegenOps : Kind → List CgOp\n");
    for (v, _) in &variants {
        s.push_str(&format!("  | .k{v} => [{}]\n", ops[v].join(", ")));
    }
    s.push_str("\ninductive EvOp\n  | write | copy | read | alloc | pushFrame | popFrame | rawPtr | offsetBy | newPointer | callFnPtr | callRt | ptrWrite\n  deriving DecidableEq, Repr\n\n");
    s.push_str("/-- memory operations of the reference interpreter `lir::eval::eval` for each kind (source order) -/\ndef evalOps : Kind → List EvOp\n");
    for (v, _) in &variants {
        s.push_str(&format!("  | .k{v} => [{}]\n", eops[v].join(", ")));
    }
    s.push_str("\nend RotoV.Gen.C12Instr\n");
    Ok(s)
}
