//! Translator targets owned by property C10.
//!
//! `c10builtins` → `Generated/C10Builtins.lean`:
//!  * the argument-validating **bindings** of `src/runtime/basic.rs` (bodies of
//!    the `fn`s inside `library! { impl T { … } }`), transliterated:
//!    `StringBytes/Chars/Lines.{len,get,slice}`, `String.{repeat,splitn,rsplitn}`,
//!    `Prefix.new`, `List.swap`, and the index conversion of `list_get`;
//!  * the methods of `src/value/string.rs` they call (`StringBytes::get/slice`,
//!    `StringChars::get/slice`, `StringLines::get`, `len`s, `RotoString::repeat/
//!    splitn/rsplitn`) and the bounds logic of `RawList::get/swap/offset_of`
//!    (`src/value/list.rs`);
//!  * a **panic-surface table**: for *every* `fn` of every `impl` block inside
//!    basic.rs's `library!` invocations, and for every method of string.rs,
//!    the syntactic constructs that can panic (`unwrap`, `expect`, indexing,
//!    panic macros, integer arithmetic) — as an enum + function, so that a
//!    theorem can say "only `Prefix.new` unwraps".
//!
//! Constructs beyond r2l's subset are handled here (never silently): the `?`
//! operator on `Option` at `let` level, `it.nth(n)?` on a named iterator,
//! closures in `and_then`/`map`, `s.get(a..b)`, `&s[a..b]`.

use super::Target;
use crate::find;
use crate::r2l::{lean_ident, Cx, Meth};
use crate::targets::scalar::ExprReplacer;
use crate::{footer, header};
use proc_macro2::{Delimiter, TokenStream, TokenTree};
use quote::ToTokens;
use std::cell::RefCell;
use std::collections::{BTreeMap, HashSet};
use std::path::Path;
use syn::visit::Visit;
use syn::visit_mut::VisitMut;
use syn::{Expr, Pat, Stmt};

pub const TARGETS: &[Target] = &[
    ("c10builtins", "C10Builtins", c10builtins as super::Gen),
    ("c10locks", "C10Locks", c10locks as super::Gen),
];

type R = Result<String, String>;

// ------------------------------------------------------------ library! parsing

#[derive(Clone)]
struct LibFn {
    impl_ty: String,
    name: String,
    params: Vec<(String, String)>, // (name, rust type text); receiver is ("self", "Self")
    ret: String,
    body: syn::Block,
}

fn ts_string(ts: &[TokenTree]) -> String {
    ts.iter().map(|t| t.to_string()).collect::<Vec<_>>().join("").replace(' ', "")
}

fn parse_impl_items(ty: &str, ts: TokenStream, out: &mut Vec<LibFn>) -> Result<(), String> {
    let toks: Vec<TokenTree> = ts.into_iter().collect();
    let mut i = 0;
    while i < toks.len() {
        match &toks[i] {
            TokenTree::Ident(id) if id == "fn" => {
                let name = match toks.get(i + 1) {
                    Some(TokenTree::Ident(n)) => n.to_string(),
                    _ => return Err(format!("impl {ty}: fn without a name")),
                };
                let params_g = match toks.get(i + 2) {
                    Some(TokenTree::Group(g)) if g.delimiter() == Delimiter::Parenthesis => g.clone(),
                    _ => return Err(format!("impl {ty}: fn {name} without a parameter list")),
                };
                let mut k = i + 3;
                let mut ret = vec![];
                let body_g = loop {
                    match toks.get(k) {
                        Some(TokenTree::Group(g)) if g.delimiter() == Delimiter::Brace => break g.clone(),
                        Some(t) => {
                            ret.push(t.clone());
                            k += 1;
                        }
                        None => return Err(format!("impl {ty}: fn {name} without a body")),
                    }
                };
                let body: syn::Block = syn::parse2(TokenTree::Group(body_g).into())
                    .map_err(|e| format!("impl {ty}: body of {name} does not parse: {e}"))?;
                let mut params = vec![];
                // split the parameter list at top-level commas
                let mut cur: Vec<TokenTree> = vec![];
                let mut flush = |cur: &mut Vec<TokenTree>| {
                    if cur.is_empty() {
                        return;
                    }
                    let txt = ts_string(cur);
                    if txt == "self" || txt == "&self" || txt == "mutself" {
                        params.push(("self".to_string(), "Self".to_string()));
                    } else if let Some((n, t)) = txt.split_once(':') {
                        params.push((n.trim_start_matches("mut").to_string(), t.to_string()));
                    } else {
                        params.push((txt, "?".to_string()));
                    }
                    cur.clear();
                };
                let mut depth = 0i32;
                for t in params_g.stream() {
                    match &t {
                        TokenTree::Punct(p) if p.as_char() == '<' => depth += 1,
                        TokenTree::Punct(p) if p.as_char() == '>' => depth -= 1,
                        TokenTree::Punct(p) if p.as_char() == ',' && depth == 0 => {
                            flush(&mut cur);
                            continue;
                        }
                        _ => {}
                    }
                    cur.push(t);
                }
                flush(&mut cur);
                let ret = ts_string(&ret);
                let ret = ret.strip_prefix("->").unwrap_or(&ret).to_string();
                out.push(LibFn { impl_ty: ty.to_string(), name, params, ret, body });
                i = k + 1;
            }
            _ => i += 1,
        }
    }
    Ok(())
}

/// Every `impl <Ty> { … }` inside a token stream (recursively through groups).
fn collect_impls(ts: TokenStream, ctx: &str, out: &mut Vec<LibFn>) -> Result<(), String> {
    let toks: Vec<TokenTree> = ts.into_iter().collect();
    let mut i = 0;
    while i < toks.len() {
        match &toks[i] {
            TokenTree::Ident(id) if id == "impl" => {
                let mut k = i + 1;
                let mut ty = vec![];
                let mut found = None;
                while let Some(t) = toks.get(k) {
                    if let TokenTree::Group(g) = t {
                        if g.delimiter() == Delimiter::Brace {
                            found = Some(g.clone());
                            break;
                        }
                    }
                    ty.push(t.clone());
                    k += 1;
                }
                if let Some(g) = found {
                    let mut name = ts_string(&ty);
                    if name.contains('$') {
                        name = format!("{ctx}_{}", name.replace('$', ""));
                    }
                    parse_impl_items(&name, g.stream(), out)?;
                    i = k + 1;
                } else {
                    i += 1;
                }
            }
            TokenTree::Group(g) => {
                collect_impls(g.stream(), ctx, out)?;
                i += 1;
            }
            _ => i += 1,
        }
    }
    Ok(())
}

fn library_fns(file: &syn::File) -> Result<Vec<LibFn>, String> {
    struct V(Vec<(String, TokenStream)>);
    impl<'ast> Visit<'ast> for V {
        fn visit_item_macro(&mut self, m: &'ast syn::ItemMacro) {
            let ctx = m.ident.as_ref().map(|i| i.to_string()).unwrap_or_default();
            self.0.push((ctx, m.mac.tokens.clone()));
        }
        fn visit_macro(&mut self, m: &'ast syn::Macro) {
            self.0.push((String::new(), m.tokens.clone()));
        }
    }
    let mut v = V(vec![]);
    v.visit_file(file);
    let mut out = vec![];
    for (ctx, ts) in v.0 {
        collect_impls(ts, &ctx, &mut out)?;
    }
    Ok(out)
}

// ------------------------------------------------------------- panic surface

#[derive(Default)]
struct Surface(Vec<&'static str>);
impl<'ast> Visit<'ast> for Surface {
    fn visit_expr_method_call(&mut self, m: &'ast syn::ExprMethodCall) {
        match m.method.to_string().as_str() {
            "unwrap" | "unwrap_err" | "unwrap_unchecked" => self.0.push("unwrap"),
            "expect" | "expect_err" => self.0.push("expect"),
            _ => {}
        }
        syn::visit::visit_expr_method_call(self, m);
    }
    fn visit_expr_index(&mut self, i: &'ast syn::ExprIndex) {
        self.0.push("index");
        syn::visit::visit_expr_index(self, i);
    }
    fn visit_macro(&mut self, m: &'ast syn::Macro) {
        let n = m.path.segments.last().map(|s| s.ident.to_string()).unwrap_or_default();
        if ["panic", "assert", "assert_eq", "assert_ne", "unreachable", "todo", "unimplemented", "ice"].contains(&n.as_str()) {
            self.0.push("panic_macro");
        }
    }
    fn visit_expr_binary(&mut self, b: &'ast syn::ExprBinary) {
        use syn::BinOp::*;
        if matches!(b.op, Add(_) | Sub(_) | Mul(_) | Div(_) | Rem(_) | Shl(_) | Shr(_) | AddAssign(_) | SubAssign(_)
            | MulAssign(_) | DivAssign(_) | RemAssign(_) | ShlAssign(_) | ShrAssign(_)) {
            self.0.push("arith");
        }
        syn::visit::visit_expr_binary(self, b);
    }
    fn visit_expr_cast(&mut self, c: &'ast syn::ExprCast) {
        self.0.push("cast");
        syn::visit::visit_expr_cast(self, c);
    }
    fn visit_expr_unsafe(&mut self, u: &'ast syn::ExprUnsafe) {
        self.0.push("unsafe_");
        syn::visit::visit_expr_unsafe(self, u);
    }
}

fn surface_of(b: &syn::Block) -> Vec<&'static str> {
    let mut s = Surface::default();
    s.visit_block(b);
    s.0
}

fn ctor_name(impl_ty: &str, f: &str) -> String {
    let t: String = impl_ty.chars().map(|c| if c.is_alphanumeric() { c } else { '_' }).collect();
    format!("{}_{}", t.trim_matches('_'), f)
}

fn surface_table(name: &str, fns: &[(String, Vec<&'static str>)]) -> String {
    let mut out = format!("inductive {name} where\n");
    for (c, _) in fns {
        out.push_str(&format!("  | {c}\n"));
    }
    out.push_str("  deriving DecidableEq, Repr\n\n");
    out.push_str(&format!("def {name}.all : List {name} := [{}]\n\n",
        fns.iter().map(|(c, _)| format!(".{c}")).collect::<Vec<_>>().join(", ")));
    out.push_str(&format!("def {name}.surface : {name} → List Risk\n"));
    for (c, r) in fns {
        out.push_str(&format!("  | .{c} => [{}]\n", r.iter().map(|x| format!(".{x}")).collect::<Vec<_>>().join(", ")));
    }
    out.push('\n');
    out
}

// ------------------------------------------------------------------ the walker

struct W {
    cx: RefCell<Cx>,
    /// generated functions callable as methods on `self`: (impl, method) ↦ Lean name
    self_methods: BTreeMap<String, String>,
    counter: RefCell<usize>,
}

impl W {
    fn placeholder(&self, lean: String) -> Expr {
        let mut n = self.counter.borrow_mut();
        *n += 1;
        let id = format!("lean__ph{}", *n);
        self.cx.borrow_mut().paths.insert(id.clone(), lean);
        syn::parse_str::<Expr>(&id).unwrap()
    }

    fn v(&self, e: &Expr) -> R {
        let mut e = e.clone();
        let mut err = None;
        Pre { w: self, err: &mut err }.visit_expr_mut(&mut e);
        if let Some(x) = err {
            return Err(x);
        }
        let r = self.cx.borrow().v(&e);
        r
    }

    fn pat(&self, p: &Pat) -> R {
        self.cx.borrow().pat(p)
    }

    fn block(&self, stmts: &[Stmt]) -> R {
        if stmts.is_empty() {
            return Ok("(pure ())".into());
        }
        let (first, rest) = stmts.split_first().unwrap();
        match first {
            Stmt::Local(l) => {
                let init = l.init.as_ref().ok_or("unsupported: let without initialiser")?;
                if init.diverge.is_some() {
                    return Err("unsupported: let-else".into());
                }
                let pat_inner = match &l.pat {
                    Pat::Type(pt) => &*pt.pat,
                    p => p,
                };
                let pat = self.pat(pat_inner)?;
                let rest_s = self.block(rest)?;
                if let Expr::Try(t) = &*init.expr {
                    // `let x = it.nth(n)?;` on a named iterator
                    if let Expr::MethodCall(mc) = &*t.expr {
                        if mc.method == "nth" || mc.method == "next" {
                            if let Expr::Path(p) = &*mc.receiver {
                                let it = lean_ident(&p.to_token_stream().to_string());
                                let n = match mc.args.first() {
                                    Some(a) => self.v(a)?,
                                    None => "(0 : Nat)".into(),
                                };
                                return Ok(format!("(RIter.nthQ {it} {n} (fun {pat} {it} =>\n {rest_s}))"));
                            }
                        }
                    }
                    let val = self.v(&t.expr)?;
                    if val.contains('←') {
                        return Ok(format!("(do RQ.bind {val} (fun {pat} =>\n {rest_s}))"));
                    }
                    return Ok(format!("(RQ.bind {val} (fun {pat} =>\n {rest_s}))"));
                }
                let val = self.v(&init.expr)?;
                if matches!(pat_inner, Pat::Ident(_) | Pat::Wild(_)) {
                    Ok(format!("(do\n let {pat} := {val}\n {rest_s})"))
                } else {
                    Ok(format!("(do match {val} with\n | {pat} => {rest_s})"))
                }
            }
            Stmt::Expr(Expr::If(i), _) if !rest.is_empty() => {
                if i.else_branch.is_some() || !crate::r2l::diverges(&i.then_branch.stmts) {
                    return Err("unsupported: non-diverging `if` statement".into());
                }
                let then = self.block(&i.then_branch.stmts)?;
                let els = self.block(rest)?;
                self.if_(&i.cond, then, els)
            }
            Stmt::Expr(e, semi) if rest.is_empty() => {
                if semi.is_some() && !matches!(e, Expr::Return(_)) {
                    // `f(x);` as the last statement of a unit function
                    let v = self.v(e)?;
                    return Ok(format!("(do\n let _ := {v}\n pure ())"));
                }
                self.tail(e)
            }
            other => Err(format!("unsupported statement: {}", other.to_token_stream())),
        }
    }

    fn if_(&self, cond: &Expr, then: String, els: String) -> R {
        if let Expr::Let(l) = cond {
            let scrut = self.v(&l.expr)?;
            let pat = self.pat(&l.pat)?;
            Ok(format!("(do match {scrut} with\n | {pat} => {then}\n | _ => {els})"))
        } else {
            let c = self.v(cond)?;
            Ok(format!("(do if {c} then {then} else {els})"))
        }
    }

    fn tail(&self, e: &Expr) -> R {
        match e {
            Expr::Return(r) => match &r.expr {
                Some(x) => self.tail(x),
                None => Ok("(pure ())".into()),
            },
            Expr::Block(b) => self.block(&b.block.stmts),
            Expr::Paren(p) => self.tail(&p.expr),
            Expr::If(i) => {
                let then = self.block(&i.then_branch.stmts)?;
                let els = match &i.else_branch {
                    Some((_, e)) => self.tail(e)?,
                    None => "(pure ())".into(),
                };
                self.if_(&i.cond, then, els)
            }
            other => Ok(format!("(do pure {})", self.v(other)?)),
        }
    }
}

/// Rewrites the shapes r2l does not know into placeholders with a fixed Lean text.
struct Pre<'a> {
    w: &'a W,
    err: &'a mut Option<String>,
}

impl Pre<'_> {
    fn closure1(&mut self, e: &Expr) -> Option<(String, String)> {
        if let Expr::Closure(c) = e {
            if c.inputs.len() == 1 {
                let p = match self.w.pat(&c.inputs[0]) {
                    Ok(p) => p,
                    Err(x) => {
                        *self.err = Some(x);
                        return None;
                    }
                };
                match self.w.cx.borrow().v(&c.body) {
                    Ok(b) => return Some((p, b)),
                    Err(x) => {
                        *self.err = Some(x);
                        return None;
                    }
                }
            }
        }
        None
    }
    fn lean(&mut self, e: &Expr) -> String {
        match self.w.cx.borrow().v(e) {
            Ok(s) => s,
            Err(x) => {
                *self.err = Some(x);
                String::new()
            }
        }
    }
}

impl VisitMut for Pre<'_> {
    fn visit_expr_mut(&mut self, e: &mut Expr) {
        // children first
        syn::visit_mut::visit_expr_mut(self, e);
        if self.err.is_some() {
            return;
        }
        let new: Option<Expr> = match e {
            Expr::Try(_) => {
                *self.err = Some("unsupported: `?` below statement level".into());
                None
            }
            Expr::Index(ix) => match &*ix.index {
                Expr::Range(r) => {
                    let recv = self.lean(&ix.expr);
                    match (&r.start, &r.end) {
                        (Some(a), Some(b)) if matches!(r.limits, syn::RangeLimits::HalfOpen(_)) => {
                            let (a, b) = (self.lean(a), self.lean(b));
                            Some(self.w.placeholder(format!("(← Str.index_range {recv} {a} {b})")))
                        }
                        (Some(a), None) => {
                            let a = self.lean(a);
                            Some(self.w.placeholder(format!("(← Str.index_from {recv} {a})")))
                        }
                        _ => {
                            *self.err = Some("unsupported range form in an index expression".into());
                            None
                        }
                    }
                }
                _ => {
                    *self.err = Some("unsupported: non-range index expression".into());
                    None
                }
            },
            Expr::MethodCall(mc) => {
                let name = mc.method.to_string();
                let recv_txt = mc.receiver.to_token_stream().to_string().replace(' ', "");
                let args: Vec<Expr> = mc.args.iter().cloned().collect();
                if name == "get" && args.len() == 1 && matches!(args[0], Expr::Range(_)) {
                    let Expr::Range(r) = &args[0] else { unreachable!() };
                    let recv = self.lean(&mc.receiver);
                    match (&r.start, &r.end) {
                        (Some(a), Some(b)) if matches!(r.limits, syn::RangeLimits::HalfOpen(_)) => {
                            let (a, b) = (self.lean(a), self.lean(b));
                            Some(self.w.placeholder(format!("(Str.get_range {recv} {a} {b})")))
                        }
                        (Some(a), None) => {
                            let a = self.lean(a);
                            Some(self.w.placeholder(format!("(Str.get_from {recv} {a})")))
                        }
                        _ => {
                            *self.err = Some("unsupported range form in `get`".into());
                            None
                        }
                    }
                } else if (name == "and_then" || name == "map") && args.len() == 1 {
                    if let Some((p, b)) = self.closure1(&args[0]) {
                        let recv = self.lean(&mc.receiver);
                        if b.contains('←') {
                            if name == "and_then" {
                                Some(self.w.placeholder(format!("(← RQ.bind {recv} (fun {p} => (do pure {b})))")))
                            } else {
                                *self.err = Some("unsupported: fallible closure in `map`".into());
                                None
                            }
                        } else if name == "and_then" {
                            Some(self.w.placeholder(format!("(Option.bind {recv} (fun {p} => {b}))")))
                        } else {
                            Some(self.w.placeholder(format!("(Option.map (fun {p} => {b}) {recv})")))
                        }
                    } else if self.err.is_none()
                        && args[0].to_token_stream().to_string().replace(' ', "") == "Into::into"
                    {
                        Some((*mc.receiver).clone())
                    } else {
                        None
                    }
                } else if recv_txt == "self" || recv_txt == "this" {
                    if let Some(f) = self.w.self_methods.get(&name).cloned() {
                        let recv = self.lean(&mc.receiver);
                        let a: Vec<String> = args.iter().map(|x| self.lean(x)).collect();
                        let a = if a.is_empty() { String::new() } else { format!(" {}", a.join(" ")) };
                        Some(self.w.placeholder(format!("(← {f} dbg {recv}{a})")))
                    } else {
                        None
                    }
                } else {
                    None
                }
            }
            _ => None,
        };
        if let Some(n) = new {
            *e = n;
        }
    }
}

// ----------------------------------------------------------------- the target

fn base_cx() -> Cx {
    let mut cx = Cx::default();
    cx.types.insert("usize".into(), "USz".into());
    cx.paths.insert("self".into(), "self_".into());
    cx.methods.insert("ok".into(), Meth::Identity);
    cx.methods.insert("try_into".into(), Meth::Pure("RInt.try_into".into()));
    cx.methods.insert("checked_sub".into(), Meth::Pure("RInt.checked_sub".into()));
    cx.methods.insert("unwrap".into(), Meth::Fallible("ROpt.unwrap".into()));
    cx.methods.insert("expect".into(), Meth::Fallible("ROpt.unwrap".into()));
    cx.methods.insert("chars".into(), Meth::Identity);
    cx.methods.insert("next".into(), Meth::Pure("Str.next_char".into()));
    cx.methods.insert("nth".into(), Meth::Pure("Str.nth_char".into()));
    cx.methods.insert("len".into(), Meth::Pure("Str.len".into()));
    cx.methods.insert("count".into(), Meth::Pure("RCount.count".into()));
    cx.methods.insert("lines".into(), Meth::Pure("Str.lines".into()));
    cx.methods.insert("repeat".into(), Meth::Pure("Str.repeat".into()));
    cx.methods.insert("splitn".into(), Meth::Pure("Str.splitn".into()));
    cx.methods.insert("rsplitn".into(), Meth::Pure("Str.rsplitn".into()));
    cx.methods.insert("collect".into(), Meth::Identity);
    cx.methods.insert("to_vec".into(), Meth::Identity);
    cx.methods.insert("join".into(), Meth::Pure("Str.join".into()));
    cx.paths.insert("Prefix::new_relaxed".into(), "Prefix.new_relaxed".into());
    cx
}

/// One generated function: binders, return type, translated body.
fn emit(w: &W, lean_name: &str, binders: &str, ret: &str, block: &syn::Block) -> R {
    let body = w.block(&block.stmts).map_err(|e| format!("{lean_name}: {e}"))?;
    Ok(format!("def {lean_name} (dbg : Bool) {binders} : Res ({ret}) :=\n {body}\n\n"))
}

fn replace(block: &mut syn::Block, pairs: &[(&str, &str)], require: &[(&str, usize)], who: &str) -> Result<(), String> {
    let mut rp = ExprReplacer::new(pairs);
    rp.visit_block_mut(block);
    for (k, n) in require {
        rp.require(k, *n).map_err(|e| format!("{who}: {e}"))?;
    }
    Ok(())
}

pub fn c10builtins(repo: &Path) -> Result<String, String> {
    let basic = find::parse(repo, "src/runtime/basic.rs")?;
    let string = find::parse(repo, "src/value/string.rs")?;
    let list = find::parse(repo, "src/value/list.rs")?;
    let mut out = header("C10Builtins", &["src/runtime/basic.rs", "src/value/string.rs", "src/value/list.rs"])
        .replace("import RotoV.Model.Clif\n", "import RotoV.Model.Clif\nimport RotoV.Model.Builtins\n");
    out.push_str("variable [Target]\n\n");
    out.push_str("class RCount (α : Type) where\n  count : α → USz\ninstance : RCount Str := ⟨Str.count_chars⟩\ninstance : RCount (List Str) := ⟨fun l => RInt.ofInt _ _ l.length⟩\n\n");

    // ---------------------------------------------------- src/value/string.rs
    let mut w = W { cx: RefCell::new(base_cx()), self_methods: BTreeMap::new(), counter: RefCell::new(0) };
    let s0 = [("self.0.0", "s")];
    let str_fns: [(&str, &str, &str, &str, &str); 8] = [
        ("StringBytes", "len", "StringBytes_len", "(s : Str)", "USz"),
        ("StringBytes", "get", "StringBytes_get", "(s : Str) (idx : USz)", "Option Char"),
        ("StringBytes", "slice", "StringBytes_slice", "(s : Str) (i j : USz)", "Option Str"),
        ("StringChars", "len", "StringChars_len", "(s : Str)", "USz"),
        ("StringChars", "get", "StringChars_get", "(s : Str) (idx : USz)", "Option Char"),
        ("StringLines", "len", "StringLines_len", "(s : Str)", "USz"),
        ("StringLines", "get", "StringLines_get", "(s : Str) (idx : USz)", "Option Char"),
        ("RotoString", "repeat", "RotoString_repeat", "(s : Str) (n : USz)", "Lim Str"),
    ];
    for (imp, f, lean, binders, ret) in str_fns {
        let mut fb = find::func(&string, f, Some(imp))?;
        replace(&mut fb.block, &s0, &[("self.0.0", 1)], lean)?;
        out.push_str(&emit(&w, lean, binders, ret, &fb.block)?);
    }
    for (f, lean) in [("splitn", "RotoString_splitn"), ("rsplitn", "RotoString_rsplitn")] {
        let mut fb = find::func(&string, f, Some("RotoString"))?;
        let from = format!("self.0.0.{f}(n, separator).map(Into::into).collect()");
        let to = format!("s.{f}(n, separator)");
        replace(&mut fb.block, &[(&from, &to)], &[(&from, 1)], lean)?;
        out.push_str(&emit(&w, lean, "(s : Str) (n : USz) (separator : Str)", "List Str", &fb.block)?);
    }
    {
        // StringChars::slice: the iterator expression is named, the rest is transliterated
        let mut fb = find::func(&string, "slice", Some("StringChars"))?;
        let it = "self.0.0.char_indices().map(|(byte, _)| byte).chain(std::iter::once(self.0.0.len()))";
        replace(&mut fb.block, &[(it, "str_boundary_iter(s)"), ("\"\".into()", "str_empty"), ("self.0.0", "s")],
            &[(it, 1), ("self.0.0", 1)], "StringChars_slice")?;
        w.cx.borrow_mut().paths.insert("str_boundary_iter".into(), "Str.boundary_iter".into());
        w.cx.borrow_mut().paths.insert("str_empty".into(), "Str.empty".into());
        out.push_str(&emit(&w, "StringChars_slice", "(s : Str) (i j : USz)", "Option Str", &fb.block)?);
    }
    {
        // StringLines::slice has two `for` loops over one iterator: hand-modelled
        // (`StringLines_slice_model`); its validation prefix is still tied here.
        let fb = find::func(&string, "slice", Some("StringLines"))?;
        let first = fb.block.stmts.first().map(|s| s.to_token_stream().to_string().replace(' ', "")).unwrap_or_default();
        if first != "letnum=j.checked_sub(i)?;" {
            return Err(format!("StringLines::slice: expected `let num = j.checked_sub(i)?;` first, found `{first}`"));
        }
        let idx: Vec<String> = {
            struct Ix(Vec<String>);
            impl<'ast> Visit<'ast> for Ix {
                fn visit_expr_index(&mut self, i: &'ast syn::ExprIndex) {
                    self.0.push(i.to_token_stream().to_string().replace(' ', ""));
                }
            }
            let mut v = Ix(vec![]);
            v.visit_block(&fb.block);
            v.0
        };
        if idx != ["self.0.0[start_idx..end_idx]"] {
            return Err(format!("StringLines::slice: index expressions changed: {idx:?}"));
        }
        let loops = fb.block.stmts.iter().filter(|s| matches!(s, Stmt::Expr(Expr::ForLoop(_), _))).count();
        if loops != 2 {
            return Err(format!("StringLines::slice: expected two for loops, found {loops}"));
        }
        out.push_str("def StringLines_slice (dbg : Bool) (s : Str) (i j : USz) : Res (Option Str) :=\n StringLines_slice_model s i j\n\n");
    }

    // ------------------------------------------------------ src/value/list.rs
    {
        let mut w2 = W { cx: RefCell::new(base_cx()), self_methods: BTreeMap::new(), counter: RefCell::new(0) };
        let mut f = find::func(&list, "offset_of", Some("RawList"))?;
        replace(&mut f.block, &[("self.vtable.size()", "self.size")], &[("self.vtable.size()", 1)], "RawList_offset_of")?;
        out.push_str(&emit(&w2, "RawList_offset_of", "(self_ : RawListS) (n : USz)", "USz", &f.block)?);
        w2.self_methods.insert("offset_of".into(), "RawList_offset_of".into());
        // get: bounds check + offset; the pointer arithmetic that follows is outside the model
        let f = find::func(&list, "get", Some("RawList"))?;
        let mut stmts: Vec<Stmt> = f.block.stmts.iter().take(2).cloned().collect();
        let txt: Vec<String> = stmts.iter().map(|s| s.to_token_stream().to_string().replace(' ', "")).collect();
        if txt.len() != 2 || !txt[1].starts_with("letoffset=self.offset_of(idx)") {
            return Err(format!("RawList::get: unexpected shape: {txt:?}"));
        }
        stmts.push(syn::parse_str::<Stmt>("return Some(offset);").unwrap());
        out.push_str(&emit(&w2, "RawList_get", "(self_ : RawListS) (idx : USz)", "Option USz", &syn::Block { brace_token: Default::default(), stmts })?);
        // swap: the two bounds checks, the i == j check, the two offsets
        let f = find::func(&list, "swap", Some("RawList"))?;
        let mut stmts: Vec<Stmt> = f.block.stmts.iter().take(4).cloned().collect();
        let txt: Vec<String> = stmts.iter().map(|s| s.to_token_stream().to_string().replace(' ', "")).collect();
        if txt.len() != 4 || !txt[2].starts_with("leti=self.offset_of(i)") || !txt[3].starts_with("letj=self.offset_of(j)") {
            return Err(format!("RawList::swap: unexpected shape: {txt:?}"));
        }
        let mut blk = syn::Block { brace_token: Default::default(), stmts: std::mem::take(&mut stmts) };
        replace(&mut blk, &[("return", "return None")], &[("return", 2)], "RawList_swap")?;
        blk.stmts.push(syn::parse_str::<Stmt>("return Some((i, j));").unwrap());
        out.push_str(&emit(&w2, "RawList_swap", "(self_ : RawListS) (i j : USz)", "Option (USz × USz)", &blk)?);
        // list_get: `let idx = idx.try_into().ok(); match idx.and_then(|idx| this.get(idx)) { … }`
        let f = find::func(&list, "list_get", None)?;
        let first = f.block.stmts.first().ok_or("list_get: empty")?.clone();
        // between the index conversion and the lookup only the lock acquisition
        // (`let raw = this.0.lock().unwrap();`, the lock events are C10C's / C16's
        // subject) and cfg(verif-hooks) statements may stand
        let mut scrut = None;
        for st in f.block.stmts.iter().skip(1) {
            let txt = st.to_token_stream().to_string().replace(' ', "");
            if txt.starts_with("#[cfg(feature=\"verif-hooks\")]") { continue; }
            if let Stmt::Local(_) = st {
                if txt.ends_with("=this.0.lock().unwrap();") { continue; }
            }
            if let Stmt::Expr(Expr::Match(m), _) = st { scrut = Some((*m.expr).clone()); }
            break;
        }
        let scrut = scrut.ok_or("list_get: expected `match idx.and_then(..)` after the index conversion (and the lock acquisition)")?;
        // the guard dereferences to the same RawList the binding names `this`
        let scrut: Expr = syn::parse_str(&scrut.to_token_stream().to_string().replace("raw . get", "this . get"))
            .map_err(|e| format!("list_get: {e}"))?;
        w2.self_methods.insert("get".into(), "RawList_get".into());
        let blk = syn::Block { brace_token: Default::default(), stmts: vec![first, Stmt::Expr(scrut, None)] };
        out.push_str(&emit(&w2, "list_get_lookup", "(this : RawListS) (idx : U64)", "Option USz", &blk)?);
        // ErasedList::swap binding (`self.swap(i as usize, j as usize)`) is emitted below with the bindings
    }

    // ------------------------------------------------ src/runtime/basic.rs
    let fns = library_fns(&basic)?;
    let find_fn = |imp: &str, name: &str| -> Result<LibFn, String> {
        let hits: Vec<&LibFn> = fns.iter().filter(|f| f.impl_ty == imp && f.name == name).collect();
        match hits.len() {
            1 => Ok(hits[0].clone()),
            n => Err(format!("binding {imp}.{name}: {n} definitions found in library! blocks")),
        }
    };
    let bindings: [(&str, &str, &str, &str, &str, &[(&str, &str)]); 15] = [
        ("StringBytes", "len", "(self_ : Str)", "U64", "StringBytes", &[("len", "StringBytes_len")]),
        ("StringBytes", "get", "(self_ : Str) (idx : U64)", "Option Char", "StringBytes", &[("get", "StringBytes_get")]),
        ("StringBytes", "slice", "(self_ : Str) (start end_ : U64)", "Option Str", "StringBytes", &[("slice", "StringBytes_slice")]),
        ("StringChars", "len", "(self_ : Str)", "U64", "StringChars", &[("len", "StringChars_len")]),
        ("StringChars", "get", "(self_ : Str) (idx : U64)", "Option Char", "StringChars", &[("get", "StringChars_get")]),
        ("StringChars", "slice", "(self_ : Str) (start end_ : U64)", "Option Str", "StringChars", &[("slice", "StringChars_slice")]),
        ("StringLines", "len", "(self_ : Str)", "U64", "StringLines", &[("len", "StringLines_len")]),
        ("StringLines", "get", "(self_ : Str) (idx : U64)", "Option Char", "StringLines", &[("get", "StringLines_get")]),
        ("StringLines", "slice", "(self_ : Str) (start end_ : U64)", "Option Str", "StringLines", &[("slice", "StringLines_slice")]),
        ("RotoString", "repeat", "(self_ : Str) (n : U64)", "Lim Str", "String", &[("repeat", "RotoString_repeat")]),
        ("RotoString", "splitn", "(self_ : Str) (n : U64) (separator : Str)", "List Str", "String", &[("splitn", "RotoString_splitn")]),
        ("RotoString", "rsplitn", "(self_ : Str) (n : U64) (separator : Str)", "List Str", "String", &[("rsplitn", "RotoString_rsplitn")]),
        ("Prefix", "new", "(ip : IpAddr) (len : U8)", "Prefix", "Prefix", &[]),
        ("ErasedList", "swap", "(self_ : RawListS) (i j : U64)", "Option (USz × USz)", "List", &[("swap", "RawList_swap")]),
        // `List.join`: the list of strings as the host-side `List<RotoString>` it is transmuted to;
        // any size/capacity arithmetic written into the binding is transliterated (and must be proved)
        ("ErasedList", "join", "(self_ : List Str) (separator : Str)", "Str", "List", &[]),
    ];
    for (imp, name, binders, ret, _roto, methods) in bindings {
        let f = find_fn(imp, name)?;
        w.self_methods.clear();
        for (m, l) in methods {
            w.self_methods.insert(m.to_string(), l.to_string());
        }
        let mut blk = f.body.clone();
        // `&separator` is handled by r2l (references are transparent)
        if imp == "ErasedList" && name == "join" {
            let tm = "unsafe{std::mem::transmute::<ErasedList,List<RotoString>>(self)}";
            replace(&mut blk, &[(tm, "self")], &[(tm, 1)], "bind_ErasedList_join")?;
        }
        if imp == "ErasedList" && name == "swap" {
            // `self.swap(i, j);` is the last statement of a unit function: keep its result
            if let Some(Stmt::Expr(e, semi)) = blk.stmts.last_mut() {
                let _ = e;
                *semi = None;
            }
        }
        out.push_str(&emit(&w, &format!("bind_{}_{}", imp, name), binders, ret, &blk)?);
    }

    // ------------------------------------------------------- panic surfaces
    out.push_str("/-- syntactic constructs that can panic (or need care) inside a body -/\ninductive Risk where\n  | unwrap | expect | index | panic_macro | arith | cast | unsafe_\n  deriving DecidableEq, Repr\n\n");
    let mut seen = HashSet::new();
    let mut tab = vec![];
    for f in &fns {
        let mut c = ctor_name(&f.impl_ty, &f.name);
        while !seen.insert(c.clone()) {
            c.push('\'');
        }
        tab.push((c, surface_of(&f.body)));
    }
    if tab.len() < 60 {
        return Err(format!("only {} binding functions found in basic.rs's library! blocks", tab.len()));
    }
    out.push_str(&surface_table("Binding", &tab));
    // every method of string.rs
    struct M(Vec<(String, Vec<&'static str>)>, Option<String>);
    impl<'ast> Visit<'ast> for M {
        fn visit_item_impl(&mut self, i: &'ast syn::ItemImpl) {
            if i.trait_.is_none() {
                self.1 = Some(i.self_ty.to_token_stream().to_string().replace(' ', ""));
                syn::visit::visit_item_impl(self, i);
                self.1 = None;
            }
        }
        fn visit_impl_item_fn(&mut self, f: &'ast syn::ImplItemFn) {
            if let Some(t) = &self.1 {
                self.0.push((ctor_name(t, &f.sig.ident.to_string()), surface_of(&f.block)));
            }
        }
        fn visit_item_mod(&mut self, _m: &'ast syn::ItemMod) {} // skip `mod tests`
    }
    let mut m = M(vec![], None);
    m.visit_file(&string);
    out.push_str(&surface_table("StrFn", &m.0));
    out.push_str(&footer("C10Builtins"));
    Ok(out)
}

// =============================================================== lock sites
//
// `c10locks` → `Generated/C10Locks.lean`: for every function of
// `src/value/list.rs` (outside `mod tests`) and every binding body of
// `src/runtime/basic.rs` that touches a mutex, the sequence of lock events as
// written: each acquisition with its kind (blocking `.lock()` / `.try_lock()`),
// what happens to the `Err` of its result (`unwrap` / `expect` / anything else),
// which list it locks (receiver `self`/`this`, `other`, a fresh `new`), each
// release (`drop(guard)`, end of the statement for a temporary guard, end of the
// function for a named one) and the `if Arc::ptr_eq(..) { return .. }` guard.
// A helper that returns a `MutexGuard` is resolved at its call sites.
// `RotoV.Model.MutexPanic` gives these events their meaning.

#[derive(Clone, Debug, PartialEq)]
enum LEv {
    Acq { kind: &'static str, on_fail: &'static str, tgt: &'static str },
    Rel(&'static str),
    Distinct,
}

fn strip(e: &impl ToTokens) -> String {
    e.to_token_stream().to_string().replace(' ', "")
}

fn tgt_of(recv: &str) -> &'static str {
    let r = recv.trim_start_matches('&').trim_start_matches('(');
    let first: String = r.chars().take_while(|c| c.is_alphanumeric() || *c == '_').collect();
    match first.as_str() {
        "self" | "this" | "self_" => "self_",
        "other" => "other",
        "new" => "fresh",
        _ => "unknown",
    }
}

struct LockWalk<'h> {
    helpers: &'h BTreeMap<String, (&'static str, &'static str)>,
    ev: Vec<LEv>,
    /// named guards still held: (binding name or None once shadowed, target)
    held: Vec<(Option<String>, &'static str)>,
    /// temporaries acquired in the current statement
    temps: Vec<&'static str>,
    /// `let swap = Arc::as_ptr(&P.0) > Arc::as_ptr(&Q.0);` ↦ (P, Q, is_greater)
    order_flags: BTreeMap<String, (String, String, bool)>,
    /// names bound by the address-order idiom: the lower- / higher-addressed list
    names: BTreeMap<String, &'static str>,
}

/// `Arc::as_ptr(&P.0) > Arc::as_ptr(&Q.0)` (or `<`) ↦ (P, Q, is_greater)
fn addr_compare(e: &Expr) -> Option<(String, String, bool)> {
    let Expr::Binary(b) = e else { return None };
    let gt = match b.op {
        syn::BinOp::Gt(_) => true,
        syn::BinOp::Lt(_) => false,
        _ => return None,
    };
    let side = |x: &Expr| -> Option<String> {
        let t = strip(x);
        let inner = t.strip_prefix("Arc::as_ptr(&")?.strip_suffix(".0)")?;
        Some(inner.to_string())
    };
    Some((side(&b.left)?, side(&b.right)?, gt))
}

fn tuple2(b: &syn::Block) -> Option<(String, String)> {
    match b.stmts.as_slice() {
        [Stmt::Expr(Expr::Tuple(t), None)] if t.elems.len() == 2 => Some((strip(&t.elems[0]), strip(&t.elems[1]))),
        _ => None,
    }
}

impl LockWalk<'_> {
    fn tgt(&self, recv: &str) -> &'static str {
        let r = recv.trim_start_matches('&').trim_start_matches('(');
        let first: String = r.chars().take_while(|c| c.is_alphanumeric() || *c == '_').collect();
        match self.names.get(&first) {
            Some(t) => t,
            None => tgt_of(recv),
        }
    }
    /// `let (x, y) = if swap { (Q, P) } else { (P, Q) };` with `swap = addr(P) > addr(Q)`:
    /// `x` is the lower-addressed list, `y` the higher-addressed one
    fn order_idiom(&mut self, l: &syn::Local) -> bool {
        let Pat::Tuple(pt) = &l.pat else { return false };
        let ids: Vec<String> = pt.elems.iter().filter_map(|p| if let Pat::Ident(i) = p { Some(i.ident.to_string()) } else { None }).collect();
        if ids.len() != 2 || pt.elems.len() != 2 {
            return false;
        }
        let Some(init) = &l.init else { return false };
        let Expr::If(i) = &*init.expr else { return false };
        let cmp = addr_compare(&i.cond).or_else(|| self.order_flags.get(&strip(&i.cond)).cloned());
        let Some((p, q, gt)) = cmp else { return false };
        let Some((_, Expr::Block(eb))) = i.else_branch.as_ref().map(|(t, e)| (t, &**e)) else { return false };
        let (Some(th), Some(el)) = (tuple2(&i.then_branch), tuple2(&eb.block)) else { return false };
        // under the condition the first component must be the lower address, and likewise under its negation
        let (want_then, want_else) = if gt { ((q.clone(), p.clone()), (p.clone(), q.clone())) } else { ((p.clone(), q.clone()), (q.clone(), p.clone())) };
        let both_lists = [tgt_of(&p), tgt_of(&q)];
        if th == want_then && el == want_else && both_lists.contains(&"self_") && both_lists.contains(&"other") {
            self.names.insert(ids[0].clone(), "lo");
            self.names.insert(ids[1].clone(), "hi");
            return true;
        }
        false
    }
}

impl LockWalk<'_> {
    /// `<recv>.lock().unwrap()` / `.try_lock().expect(..)` / `<recv>.lock()` / `<recv>.helper()`
    fn as_acq(&self, e: &Expr) -> Option<(&'static str, &'static str, &'static str, Vec<Expr>)> {
        let Expr::MethodCall(m) = e else { return None };
        let name = m.method.to_string();
        let unwrapish = match name.as_str() {
            "unwrap" | "unwrap_unchecked" => Some("unwrap"),
            "expect" => Some("expect"),
            _ => None,
        };
        if let Some(of) = unwrapish {
            if let Expr::MethodCall(inner) = &*m.receiver {
                let k = match inner.method.to_string().as_str() {
                    "lock" => Some("blocking"),
                    "try_lock" => Some("try_"),
                    _ => None,
                };
                if let Some(k) = k {
                    return Some((k, of, self.tgt(&strip(&inner.receiver)), m.args.iter().cloned().collect()));
                }
            }
            return None;
        }
        match name.as_str() {
            "lock" => Some(("blocking", "other", self.tgt(&strip(&m.receiver)), vec![])),
            "try_lock" => Some(("try_", "other", self.tgt(&strip(&m.receiver)), vec![])),
            h if m.args.is_empty() && self.helpers.contains_key(h) => {
                let (k, of) = self.helpers[h];
                Some((k, of, self.tgt(&strip(&m.receiver)), vec![]))
            }
            _ => None,
        }
    }
    fn release_temps(&mut self, from: usize) {
        while self.temps.len() > from {
            let t = self.temps.pop().unwrap();
            self.ev.push(LEv::Rel(t));
        }
    }
}

impl<'ast> Visit<'ast> for LockWalk<'_> {
    fn visit_stmt(&mut self, s: &'ast Stmt) {
        let mark = self.temps.len();
        if let Stmt::Local(l) = s {
            let name = match &l.pat {
                Pat::Ident(i) => Some(i.ident.to_string()),
                Pat::Type(t) => match &*t.pat {
                    Pat::Ident(i) => Some(i.ident.to_string()),
                    _ => None,
                },
                _ => None,
            };
            if self.order_idiom(l) {
                return;
            }
            if let (Some(n), Some(init)) = (&name, &l.init) {
                if let Some(c) = addr_compare(&init.expr) {
                    self.order_flags.insert(n.clone(), c);
                }
            }
            if let Some(init) = &l.init {
                if let Some((k, of, t, _)) = self.as_acq(&init.expr) {
                    // a guard bound to a name lives until `drop(name)` or the end of the function
                    self.ev.push(LEv::Acq { kind: k, on_fail: of, tgt: t });
                    for h in self.held.iter_mut() {
                        if h.0 == name {
                            h.0 = None;
                        }
                    }
                    self.held.push((name, t));
                    return;
                }
            }
            syn::visit::visit_stmt(self, s);
            // a later `let` of the same name shadows the guard: it stays held, but cannot be dropped by name
            for h in self.held.iter_mut() {
                if h.0.is_some() && h.0 == name {
                    h.0 = None;
                }
            }
        } else {
            syn::visit::visit_stmt(self, s);
        }
        self.release_temps(mark);
    }
    fn visit_expr(&mut self, e: &'ast Expr) {
        if let Some((k, of, t, _args)) = self.as_acq(e) {
            self.ev.push(LEv::Acq { kind: k, on_fail: of, tgt: t });
            self.temps.push(t);
            return;
        }
        if let Expr::Call(c) = e {
            if strip(&c.func) == "drop" && c.args.len() == 1 {
                let a = strip(&c.args[0]);
                if let Some(pos) = self.held.iter().rposition(|h| h.0.as_deref() == Some(a.as_str())) {
                    let (_, t) = self.held.remove(pos);
                    self.ev.push(LEv::Rel(t));
                    return;
                }
            }
        }
        if let Expr::If(i) = e {
            if strip(&i.cond).starts_with("Arc::ptr_eq(") && crate::r2l::diverges(&i.then_branch.stmts) {
                self.ev.push(LEv::Distinct);
            }
        }
        syn::visit::visit_expr(self, e);
    }
    fn visit_item(&mut self, _i: &'ast syn::Item) {} // nested items are functions of their own
}

fn lock_events(block: &syn::Block, helpers: &BTreeMap<String, (&'static str, &'static str)>) -> Vec<LEv> {
    let mut w = LockWalk { helpers, ev: vec![], held: vec![], temps: vec![], order_flags: BTreeMap::new(), names: BTreeMap::new() };
    for s in &block.stmts {
        w.visit_stmt(s);
    }
    // the tail expression's temporaries and the named guards die at the end of the body
    w.release_temps(0);
    while let Some((_, t)) = w.held.pop() {
        w.ev.push(LEv::Rel(t));
    }
    w.ev
}

struct ListFns {
    path: Vec<String>,
    cur: Option<String>,
    out: Vec<(String, String, syn::Block, String)>, // (ctor, owner, body, return type text)
}
impl<'ast> Visit<'ast> for ListFns {
    fn visit_item_mod(&mut self, m: &'ast syn::ItemMod) {
        if m.ident == "tests" {
            return;
        }
        self.path.push(m.ident.to_string());
        syn::visit::visit_item_mod(self, m);
        self.path.pop();
    }
    fn visit_item_impl(&mut self, i: &'ast syn::ItemImpl) {
        let ty = strip(&i.self_ty);
        let ty: String = ty.split('<').next().unwrap_or("").to_string();
        let label = match &i.trait_ {
            Some((_, p, _)) => format!("{}_for_{}", p.segments.last().map(|s| s.ident.to_string()).unwrap_or_default(), ty),
            None => ty,
        };
        let old = self.cur.replace(label);
        syn::visit::visit_item_impl(self, i);
        self.cur = old;
    }
    fn visit_impl_item_fn(&mut self, f: &'ast syn::ImplItemFn) {
        let owner = self.cur.clone().unwrap_or_default();
        let mut parts = self.path.clone();
        parts.push(owner.clone());
        parts.push(f.sig.ident.to_string());
        self.out.push((ctor_name(&parts[..parts.len() - 1].join("_"), &f.sig.ident.to_string()), owner, f.block.clone(), strip(&f.sig.output)));
        syn::visit::visit_impl_item_fn(self, f);
    }
    fn visit_item_fn(&mut self, f: &'ast syn::ItemFn) {
        let mut parts = self.path.clone();
        if let Some(c) = &self.cur {
            parts.push(c.clone());
        }
        let owner = if parts.is_empty() { "free".to_string() } else { parts.join("_") };
        self.out.push((ctor_name(&owner, &f.sig.ident.to_string()), owner, (*f.block).clone(), strip(&f.sig.output)));
        syn::visit::visit_item_fn(self, f);
    }
}

pub fn c10locks(repo: &Path) -> Result<String, String> {
    let list = find::parse(repo, "src/value/list.rs")?;
    let basic = find::parse(repo, "src/runtime/basic.rs")?;
    let mut lf = ListFns { path: vec![], cur: None, out: vec![] };
    lf.visit_file(&list);
    if lf.out.len() < 40 {
        return Err(format!("only {} functions found in src/value/list.rs", lf.out.len()));
    }
    // helpers: functions that hand out a guard (their single acquisition is charged to the caller)
    let none = BTreeMap::new();
    let mut helpers: BTreeMap<String, (&'static str, &'static str)> = BTreeMap::new();
    for (ctor, _owner, body, ret) in &lf.out {
        if ret.contains("MutexGuard") {
            let acqs: Vec<LEv> = lock_events(body, &none).into_iter().filter(|e| matches!(e, LEv::Acq { .. })).collect();
            let name = ctor.rsplit('_').next().unwrap_or("").to_string();
            match acqs.as_slice() {
                [LEv::Acq { kind, on_fail, .. }] => {
                    // the ctor's last `_`-separated piece is not the method name when it contains `_`: use the real one
                    let _ = name;
                    helpers.insert(ctor.clone(), (*kind, *on_fail));
                }
                other => return Err(format!("guard-returning function {ctor}: expected exactly one acquisition, found {}", other.len())),
            }
        }
    }
    // re-key helpers by method name
    let mut by_method: BTreeMap<String, (&'static str, &'static str)> = BTreeMap::new();
    {
        struct Names(Vec<(String, String)>);
        impl<'ast> Visit<'ast> for Names {
            fn visit_item_mod(&mut self, m: &'ast syn::ItemMod) {
                if m.ident != "tests" {
                    syn::visit::visit_item_mod(self, m);
                }
            }
            fn visit_impl_item_fn(&mut self, f: &'ast syn::ImplItemFn) {
                if strip(&f.sig.output).contains("MutexGuard") {
                    self.0.push((f.sig.ident.to_string(), strip(&f.sig.output)));
                }
            }
            fn visit_item_fn(&mut self, f: &'ast syn::ItemFn) {
                if strip(&f.sig.output).contains("MutexGuard") {
                    self.0.push((f.sig.ident.to_string(), strip(&f.sig.output)));
                }
            }
        }
        let mut n = Names(vec![]);
        n.visit_file(&list);
        if n.0.len() != helpers.len() {
            return Err("guard-returning helpers: name table out of step".into());
        }
        for ((m, _), (_, v)) in n.0.iter().zip(helpers.iter()) {
            if by_method.insert(m.clone(), *v).is_some() {
                return Err(format!("two guard-returning helpers are named {m}"));
            }
        }
    }
    let mut rows: Vec<(String, String, Vec<LEv>)> = vec![];
    let mut seen = HashSet::new();
    for (ctor, owner, body, ret) in &lf.out {
        if ret.contains("MutexGuard") {
            continue; // charged to its callers
        }
        let ev = lock_events(body, &by_method);
        if ev.is_empty() {
            continue;
        }
        let mut c = ctor.clone();
        while !seen.insert(c.clone()) {
            c.push('\'');
        }
        rows.push((c, owner.clone(), ev));
    }
    for f in library_fns(&basic)? {
        let ev = lock_events(&f.body, &by_method);
        if ev.is_empty() {
            continue;
        }
        let mut c = format!("binding_{}", ctor_name(&f.impl_ty, &f.name));
        while !seen.insert(c.clone()) {
            c.push('\'');
        }
        rows.push((c, "binding".into(), ev));
    }
    if rows.len() < 10 {
        return Err(format!("only {} functions with lock events found (list.rs restructured?)", rows.len()));
    }
    // which functions compiled code reaches: everything on the erased list and the FFI shims, plus the
    // host-side `List<T>` methods that a binding body calls by name (`to_vec` in `join`)
    let mut called: HashSet<String> = HashSet::new();
    for f in library_fns(&basic)?.iter().filter(|f| f.impl_ty == "ErasedList") {
        struct Calls<'a>(&'a mut HashSet<String>);
        impl<'ast> Visit<'ast> for Calls<'_> {
            fn visit_expr_method_call(&mut self, m: &'ast syn::ExprMethodCall) {
                self.0.insert(m.method.to_string());
                syn::visit::visit_expr_method_call(self, m);
            }
        }
        Calls(&mut called).visit_block(&f.body);
    }
    let mut out = header("C10Locks", &["src/value/list.rs", "src/runtime/basic.rs"])
        .replace("import RotoV.Model.Clif\n", "import RotoV.Model.Clif\nimport RotoV.Model.MutexPanic\n");
    out.push_str("open RotoV.MutexPanic\n\n");
    out.push_str(&format!("/-- functions scanned in src/value/list.rs (outside `mod tests`) -/\ndef scannedListFns : Nat := {}\n\n", lf.out.len()));
    out.push_str(&format!("/-- guard-returning helpers resolved at their call sites -/\ndef guardHelpers : List String := [{}]\n\n",
        by_method.keys().map(|k| format!("\"{k}\"")).collect::<Vec<_>>().join(", ")));
    out.push_str("inductive LockFn where\n");
    for (c, _, _) in &rows {
        out.push_str(&format!("  | {c}\n"));
    }
    out.push_str("  deriving DecidableEq, Repr\n\n");
    out.push_str(&format!("def LockFn.all : List LockFn := [{}]\n\n", rows.iter().map(|r| format!(".{}", r.0)).collect::<Vec<_>>().join(", ")));
    out.push_str("def LockFn.events : LockFn → List Ev\n");
    for (c, _, ev) in &rows {
        let e: Vec<String> = ev.iter().map(|e| match e {
            LEv::Acq { kind, on_fail, tgt } => format!(".acq .{kind} .{on_fail} .{tgt}"),
            LEv::Rel(t) => format!(".rel .{t}"),
            LEv::Distinct => ".distinctOrReturn".to_string(),
        }).collect();
        out.push_str(&format!("  | .{c} => [{}]\n", e.join(", ")));
    }
    out.push_str("\n/-- reached by compiled code: methods of the erased list, the FFI shims, binding bodies, and\n    the host-side `List<T>` methods a list binding calls by name -/\ndef LockFn.reachedByBuiltins : LockFn → Bool\n");
    for (c, owner, _) in &rows {
        let base = c.trim_end_matches('\'');
        let is_erased = owner == "ErasedList" || owner.ends_with("_for_ErasedList");
        let is_ffi = owner.starts_with("ffi");
        let is_binding = owner == "binding";
        let host_called = !is_erased && !is_binding && owner.contains("List") && !owner.contains("RawList")
            && called.iter().any(|m| base.ends_with(&format!("_{m}")));
        out.push_str(&format!("  | .{c} => {}\n", is_erased || is_ffi || is_binding || host_called));
    }
    out.push('\n');
    out.push_str(&footer("C10Locks"));
    Ok(out)
}
