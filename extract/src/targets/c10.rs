//! Translator targets owned by property C10.
//!
//! `c10builtins` → `Generated/C10Builtins.lean`:
//!  * the argument-validating **bindings** of `src/runtime/basic.rs` (bodies of
//!    the `fn`s inside `library! { impl T { … } }`), transliterated:
//!    `StringBytes/Chars/Lines.{len,get,slice}`, `String.{repeat,splitn,rsplitn}`,
//!    `Prefix.new`, `List.swap`, and the index conversion of `list_get`;
//!  * the methods of `src/value/string.rs` they call (`StringBytes::get/slice`,
//!    `StringChars::get/slice`, `StringLines::get`, `len`s, `RotoString::repeat/
//!    splitn/rsplitn`) and the bounds logic of `RawList::get/swap/offset_of`
//!    (`src/value/list.rs`);
//!  * a **panic-surface table**: for *every* `fn` of every `impl` block inside
//!    basic.rs's `library!` invocations, and for every method of string.rs,
//!    the syntactic constructs that can panic (`unwrap`, `expect`, indexing,
//!    panic macros, integer arithmetic) — as an enum + function, so that a
//!    theorem can say "only `Prefix.new` unwraps".
//!
//! Constructs beyond r2l's subset are handled here (never silently): the `?`
//! operator on `Option` at `let` level, `it.nth(n)?` on a named iterator,
//! closures in `and_then`/`map`, `s.get(a..b)`, `&s[a..b]`.

use super::Target;
use crate::find;
use crate::r2l::{lean_ident, Cx, Meth};
use crate::targets::scalar::ExprReplacer;
use crate::{footer, header};
use proc_macro2::{Delimiter, TokenStream, TokenTree};
use quote::ToTokens;
use std::cell::RefCell;
use std::collections::{BTreeMap, HashSet};
use std::path::Path;
use syn::visit::Visit;
use syn::visit_mut::VisitMut;
use syn::{Expr, Pat, Stmt};

#[path = "c10_vtable.rs"]
mod c10_vtable;

pub const TARGETS: &[Target] = &[
    ("c10builtins", "C10Builtins", c10builtins as super::Gen),
    ("c10locks", "C10Locks", c10locks as super::Gen),
    ("c10vtable", "C10VTable", c10_vtable::c10vtable as super::Gen),
];

type R = Result<String, String>;

// ------------------------------------------------------------ library! parsing

#[derive(Clone)]
struct LibFn {
    impl_ty: String,
    name: String,
    params: Vec<(String, String)>, // (name, rust type text); receiver is ("self", "Self")
    ret: String,
    body: syn::Block,
}

fn ts_string(ts: &[TokenTree]) -> String {
    ts.iter().map(|t| t.to_string()).collect::<Vec<_>>().join("").replace(' ', "")
}

fn parse_impl_items(ty: &str, ts: TokenStream, out: &mut Vec<LibFn>) -> Result<(), String> {
    let toks: Vec<TokenTree> = ts.into_iter().collect();
    let mut i = 0;
    while i < toks.len() {
        match &toks[i] {
            TokenTree::Ident(id) if id == "fn" => {
                let name = match toks.get(i + 1) {
                    Some(TokenTree::Ident(n)) => n.to_string(),
                    _ => return Err(format!("impl {ty}: fn without a name")),
                };
                let params_g = match toks.get(i + 2) {
                    Some(TokenTree::Group(g)) if g.delimiter() == Delimiter::Parenthesis => g.clone(),
                    _ => return Err(format!("impl {ty}: fn {name} without a parameter list")),
                };
                let mut k = i + 3;
                let mut ret = vec![];
                let body_g = loop {
                    match toks.get(k) {
                        Some(TokenTree::Group(g)) if g.delimiter() == Delimiter::Brace => break g.clone(),
                        Some(t) => {
                            ret.push(t.clone());
                            k += 1;
                        }
                        None => return Err(format!("impl {ty}: fn {name} without a body")),
                    }
                };
                let body: syn::Block = syn::parse2(TokenTree::Group(body_g).into())
                    .map_err(|e| format!("impl {ty}: body of {name} does not parse: {e}"))?;
                let mut params = vec![];
                // split the parameter list at top-level commas
                let mut cur: Vec<TokenTree> = vec![];
                let mut flush = |cur: &mut Vec<TokenTree>| {
                    if cur.is_empty() {
                        return;
                    }
                    let txt = ts_string(cur);
                    if txt == "self" || txt == "&self" || txt == "mutself" {
                        params.push(("self".to_string(), "Self".to_string()));
                    } else if let Some((n, t)) = txt.split_once(':') {
                        params.push((n.trim_start_matches("mut").to_string(), t.to_string()));
                    } else {
                        params.push((txt, "?".to_string()));
                    }
                    cur.clear();
                };
                let mut depth = 0i32;
                for t in params_g.stream() {
                    match &t {
                        TokenTree::Punct(p) if p.as_char() == '<' => depth += 1,
                        TokenTree::Punct(p) if p.as_char() == '>' => depth -= 1,
                        TokenTree::Punct(p) if p.as_char() == ',' && depth == 0 => {
                            flush(&mut cur);
                            continue;
                        }
                        _ => {}
                    }
                    cur.push(t);
                }
                flush(&mut cur);
                let ret = ts_string(&ret);
                let ret = ret.strip_prefix("->").unwrap_or(&ret).to_string();
                out.push(LibFn { impl_ty: ty.to_string(), name, params, ret, body });
                i = k + 1;
            }
            _ => i += 1,
        }
    }
    Ok(())
}

/// Every `impl <Ty> { … }` inside a token stream (recursively through groups).
fn collect_impls(ts: TokenStream, ctx: &str, out: &mut Vec<LibFn>) -> Result<(), String> {
    let toks: Vec<TokenTree> = ts.into_iter().collect();
    let mut i = 0;
    while i < toks.len() {
        match &toks[i] {
            TokenTree::Ident(id) if id == "impl" => {
                let mut k = i + 1;
                let mut ty = vec![];
                let mut found = None;
                while let Some(t) = toks.get(k) {
                    if let TokenTree::Group(g) = t {
                        if g.delimiter() == Delimiter::Brace {
                            found = Some(g.clone());
                            break;
                        }
                    }
                    ty.push(t.clone());
                    k += 1;
                }
                if let Some(g) = found {
                    let mut name = ts_string(&ty);
                    if name.contains('$') {
                        name = format!("{ctx}_{}", name.replace('$', ""));
                    }
                    parse_impl_items(&name, g.stream(), out)?;
                    i = k + 1;
                } else {
                    i += 1;
                }
            }
            TokenTree::Group(g) => {
                collect_impls(g.stream(), ctx, out)?;
                i += 1;
            }
            _ => i += 1,
        }
    }
    Ok(())
}

fn library_fns(file: &syn::File) -> Result<Vec<LibFn>, String> {
    struct V(Vec<(String, TokenStream)>);
    impl<'ast> Visit<'ast> for V {
        fn visit_item_macro(&mut self, m: &'ast syn::ItemMacro) {
            let ctx = m.ident.as_ref().map(|i| i.to_string()).unwrap_or_default();
            self.0.push((ctx, m.mac.tokens.clone()));
        }
        fn visit_macro(&mut self, m: &'ast syn::Macro) {
            self.0.push((String::new(), m.tokens.clone()));
        }
    }
    let mut v = V(vec![]);
    v.visit_file(file);
    let mut out = vec![];
    for (ctx, ts) in v.0 {
        collect_impls(ts, &ctx, &mut out)?;
    }
    Ok(out)
}

// ------------------------------------------------------------- panic surface

/// Std (and inetnum) methods that are documented to panic on some arguments of
/// their parameter types: a call of one of them inside a built-in is a panic
/// site exactly like an index expression (`Risk.partial_call`).
const PARTIAL_METHODS: &[&str] = &[
    "split_at", "split_at_mut", "split_off", "remove", "insert", "insert_str", "swap", "swap_remove", "drain",
    "copy_from_slice", "clone_from_slice", "copy_within", "swap_with_slice", "reserve", "reserve_exact", "repeat",
    "chunks", "chunks_exact", "rchunks", "windows", "step_by", "rotate_left", "rotate_right", "truncate",
    "replace_range", "extend_from_within", "to_digit", "sum", "product", "borrow_mut", "pow", "isqrt", "ilog",
    "ilog2", "ilog10", "div_euclid", "rem_euclid", "next_power_of_two", "unchecked_add", "unchecked_sub", "unchecked_mul", "get_unchecked", "get_unchecked_mut", "as_str_unchecked",
    "array_chunks", "array_windows", "select_nth_unstable",
    "set_len", "assume_init", "strict_add", "strict_sub", "strict_mul",
];
/// Paths of associated functions that panic on some arguments (matched on the last two segments).
const PARTIAL_PATHS: &[&str] = &[
    "String::with_capacity", "Vec::with_capacity", "VecDeque::with_capacity", "HashMap::with_capacity",
    "char::from_digit", "char::from_u32_unchecked", "Layout::from_size_align_unchecked", "slice::from_raw_parts",
    "slice::from_raw_parts_mut", "str::from_utf8_unchecked", "String::from_utf8_unchecked", "Duration::from_secs_f64",
    "Duration::from_secs_f32", "Vec::from_raw_parts", "String::from_raw_parts", "ptr::copy_nonoverlapping",
    "ptr::swap_nonoverlapping", "ptr::read", "ptr::write", "ptr::copy",
];
/// Methods read as TOTAL: defined on every argument of their parameter types for every std
/// (or inetnum) receiver type a binding handles — they return a value, an `Option` or a
/// `Result`; allocation failure is the documented memory limit.  Not type-directed: where a
/// name is total on one receiver type and partial on another it is listed under
/// PARTIAL_METHODS unless noted.  (`abs`, `floor`, … are the float methods of the float
/// bindings; on an integer `abs` can overflow — an integer `abs` inside a binding would have
/// to be reviewed here.)
const TOTAL_METHODS: &[&str] = &[
    // conversions, references, smart pointers
    "into", "try_into", "as_ref", "as_mut", "as_str", "as_bytes", "as_slice", "to_string", "to_owned", "to_vec", "clone",
    "cloned", "copied", "borrow", "deref", "as_ptr", "as_mut_ptr", "cast", "get_ref", "to_canonical", "into_iter",
    "iter", "iter_mut", "into_boxed_str", "into_bytes", "into_string", "as_deref",
    // Option / Result / bool (the panicking ones are `unwrap` / `expect`)
    "ok", "err", "ok_or", "ok_or_else", "or", "or_else", "and", "and_then", "map", "map_err", "map_or", "map_or_else",
    "is_some", "is_none", "is_ok", "is_err", "is_some_and", "is_ok_and", "is_none_or", "unwrap_or", "unwrap_or_else",
    "unwrap_or_default", "then", "then_some", "filter", "flatten", "take", "zip", "xor", "get_or_insert_with",
    // str / String
    "len", "is_empty", "contains", "starts_with", "ends_with", "find", "rfind", "matches", "to_lowercase",
    "to_uppercase", "match_indices", "rmatch_indices", "to_ascii_lowercase", "to_ascii_uppercase", "split", "rsplit", "splitn", "rsplitn", "split_once",
    "rsplit_once", "split_whitespace", "split_terminator", "lines", "chars", "char_indices", "bytes", "trim",
    "trim_start", "trim_end", "trim_matches", "trim_start_matches", "trim_end_matches", "strip_prefix", "strip_suffix",
    "replace", "replacen", "is_char_boundary", "get", "get_mut", "push", "push_str", "pop", "clear", "parse",
    "eq_ignore_ascii_case", "is_ascii", "len_utf8", "is_alphabetic", "is_numeric", "is_alphanumeric", "is_whitespace",
    "is_ascii_digit",
    // iterators
    "next", "next_back", "nth", "last", "count", "rev", "skip", "skip_while", "take_while", "chain", "enumerate",
    "filter_map", "flat_map", "fold", "try_fold", "all", "any", "position", "rposition", "find_map", "collect", "extend",
    "extend_from_slice", "peekable", "peek", "min", "max", "min_by_key", "max_by_key", "for_each", "inspect", "once",
    "first", "last_mut", "first_mut", "split_first", "split_last", "concat", "join", "dedup", "retain", "sort",
    "sort_unstable", "sort_by", "sort_by_key", "reverse", "binary_search", "fill",
    // integers (checked / wrapping / saturating families), comparisons
    "checked_add", "checked_sub", "checked_mul", "checked_div", "checked_rem", "checked_neg", "checked_pow",
    "checked_shl", "checked_shr", "checked_next_power_of_two", "wrapping_add", "wrapping_sub", "wrapping_mul",
    "wrapping_neg", "wrapping_shl", "wrapping_shr", "saturating_add", "saturating_sub", "saturating_mul",
    "overflowing_add", "overflowing_sub", "overflowing_mul", "eq", "ne", "cmp", "partial_cmp", "lt", "le", "gt", "ge",
    "leading_zeros", "trailing_zeros", "count_ones", "abs_diff", "to_bits", "from_bits", "to_le_bytes", "to_be_bytes",
    "to_ne_bytes",
    // floats
    "floor", "ceil", "round", "trunc", "abs", "sqrt", "powf", "powi", "is_nan", "is_infinite", "is_finite", "signum",
    "mul_add",
    // addresses and prefixes (std::net, inetnum)
    "is_ipv4", "is_ipv6", "addr", "min_addr", "max_addr", "octets", "segments", "to_ipv4_mapped", "to_ipv6_mapped",
    "is_loopback", "is_unspecified", "is_multicast",
    // synchronisation: acquiring never panics by itself, its `unwrap` is counted as `unwrap`
    "lock", "try_lock", "read", "write",
];
/// Paths of functions and constructors read as total (last two segments, or the single segment).
const TOTAL_PATHS: &[&str] = &[
    "Some", "Ok", "Err", "Self", "Box::new", "Arc::new", "Rc::new", "Arc::ptr_eq", "Arc::as_ptr", "Arc::clone",
    "String::new", "Vec::new", "String::from", "Vec::from", "Into::into", "From::from", "RotoString::from",
    "RotoString::new", "Default::default", "IpAddr::from", "IpAddr::V4", "IpAddr::V6", "Ipv4Addr::from",
    "Ipv6Addr::from", "Ipv4Addr::new", "Ipv6Addr::new", "Prefix::new_relaxed", "Prefix::new", "char::from_u32",
    "char::from", "u64::from", "u32::from", "u8::from", "usize::from", "u64::try_from", "usize::try_from",
    "u32::try_from", "u8::try_from", "iter::once", "iter::empty", "iter::repeat", "mem::take", "mem::swap",
    "mem::replace", "mem::size_of", "mem::align_of", "mem::transmute", "mem::drop", "drop", "str::from_utf8",
    "String::from_utf8", "String::from_utf8_lossy", "f64::from", "f32::from", "Option::Some", "PartialEq::eq",
    "Ord::cmp", "ToString::to_string", "Clone::clone", "AsRef::as_ref", "Val", "List::new", "List::from",
    "ErasedList::new", "StringBuf::new", "Asn::from_u32", "Asn::from", "Mutex::new",
    // unsafe constructors: their obligations are what `Risk.unsafe_` flags (they are inside `unsafe { }`)
    "NonNull::new_unchecked",
];
/// Macros whose expansion contains no panic site of its own (their arguments are walked).
const TOTAL_MACROS: &[&str] = &["format", "vec", "matches", "write", "writeln", "concat", "stringify"];
const PANIC_MACROS: &[&str] = &["panic", "assert", "assert_eq", "assert_ne", "unreachable", "todo", "unimplemented", "ice",
    "debug_assert", "debug_assert_eq", "debug_assert_ne"];

/// Panic surface of a body: the syntactic constructs that can panic AND every call
/// classified against the tables above — `partial_call` (a function documented to panic
/// on some arguments) or `unknown_call` (a function the tables do not know: not read as
/// total).  `own` = the names of the methods of the project's own value types
/// (string.rs, list.rs): a call `self.m(..)` / `this.m(..)` / `Type::m(..)` of one of
/// them is the project's method, whose own body has its own row (string.rs) or is the
/// subject of C10B/C10C/C10V (list.rs).
struct Surface<'o> {
    risks: Vec<&'static str>,
    unknown: Vec<String>,
    own: &'o HashSet<String>,
}
impl Surface<'_> {
    fn method(&mut self, name: &str, recv: &str) {
        let own_recv = matches!(recv, "self" | "this" | "list" | "raw" | "*self" | "&self" | "other");
        match name {
            // `m.lock().unwrap()`: the `Err` of a blocking acquisition is poisoning only
            // (mutexes are assumed unpoisoned, as in C10C); `try_lock().unwrap()` stays an `unwrap`
            "unwrap" | "expect" if recv.ends_with(".lock()") || recv.ends_with(".read()") || recv.ends_with(".write()") => {
                self.risks.push("lock_unwrap")
            }
            "unwrap" | "unwrap_err" | "unwrap_unchecked" => self.risks.push("unwrap"),
            "expect" | "expect_err" => self.risks.push("expect"),
            n if own_recv && self.own.contains(n) => {}
            n if PARTIAL_METHODS.contains(&n) => self.risks.push("partial_call"),
            n if TOTAL_METHODS.contains(&n) => {}
            n if self.own.contains(n) => {}
            n => {
                self.risks.push("unknown_call");
                self.unknown.push(format!(".{n}()"));
            }
        }
    }
    fn path(&mut self, segs: &[String]) {
        let last = segs.last().cloned().unwrap_or_default();
        let two = if segs.len() >= 2 { format!("{}::{}", segs[segs.len() - 2], last) } else { last.clone() };
        if PARTIAL_PATHS.contains(&two.as_str()) {
            self.risks.push("partial_call");
        } else if TOTAL_PATHS.contains(&two.as_str()) || (segs.len() == 1 && TOTAL_PATHS.contains(&last.as_str())) {
        } else if segs.len() >= 2 && self.own.contains(&last)
            && matches!(segs[segs.len() - 2].as_str(), "Self" | "RotoString" | "ErasedList" | "RawList" | "List" | "StringBytes" | "StringChars" | "StringLines" | "StringBuf") {
        } else if segs.len() == 1 && self.own.contains(&last) {
            // a free function of the value-type files (`list_get`)
        } else if segs.len() == 1 && last.chars().next().is_some_and(|c| c.is_uppercase()) {
            // a tuple-struct / enum-variant constructor
        } else if segs.len() == 2 && segs[0].chars().next().is_some_and(|c| c.is_uppercase())
            && last.chars().next().is_some_and(|c| c.is_uppercase()) {
            // `Enum::Variant(..)`
        } else {
            self.risks.push("unknown_call");
            self.unknown.push(two);
        }
    }
}
impl<'ast> Visit<'ast> for Surface<'_> {
    fn visit_expr_method_call(&mut self, m: &'ast syn::ExprMethodCall) {
        let recv = m.receiver.to_token_stream().to_string().replace(' ', "");
        self.method(&m.method.to_string(), &recv);
        syn::visit::visit_expr_method_call(self, m);
    }
    fn visit_expr_call(&mut self, c: &'ast syn::ExprCall) {
        match &*c.func {
            Expr::Path(p) => {
                let segs: Vec<String> = p.path.segments.iter().map(|s| s.ident.to_string()).collect();
                self.path(&segs);
            }
            other => {
                // a call through a closure / function pointer / field: not a known function
                self.risks.push("unknown_call");
                self.unknown.push(format!("({})(..)", other.to_token_stream().to_string().replace(' ', "")));
            }
        }
        syn::visit::visit_expr_call(self, c);
    }
    fn visit_expr_index(&mut self, i: &'ast syn::ExprIndex) {
        self.risks.push("index");
        syn::visit::visit_expr_index(self, i);
    }
    fn visit_macro(&mut self, m: &'ast syn::Macro) {
        let n = m.path.segments.last().map(|s| s.ident.to_string()).unwrap_or_default();
        if PANIC_MACROS.contains(&n.as_str()) {
            self.risks.push("panic_macro");
        } else if !TOTAL_MACROS.contains(&n.as_str()) {
            self.risks.push("unknown_call");
            self.unknown.push(format!("{n}!"));
        }
        // the arguments are expressions: walk them (a panic site inside `format!(..)` counts)
        use syn::punctuated::Punctuated;
        match m.parse_body_with(Punctuated::<Expr, syn::Token![,]>::parse_terminated) {
            Ok(args) => {
                for a in &args {
                    self.visit_expr(a);
                }
            }
            Err(_) => {
                if !PANIC_MACROS.contains(&n.as_str()) {
                    self.risks.push("unknown_call");
                    self.unknown.push(format!("{n}!(unparsed arguments)"));
                }
            }
        }
    }
    fn visit_expr_binary(&mut self, b: &'ast syn::ExprBinary) {
        use syn::BinOp::*;
        if matches!(b.op, Add(_) | Sub(_) | Mul(_) | Div(_) | Rem(_) | Shl(_) | Shr(_) | AddAssign(_) | SubAssign(_)
            | MulAssign(_) | DivAssign(_) | RemAssign(_) | ShlAssign(_) | ShrAssign(_)) {
            self.risks.push("arith");
        }
        syn::visit::visit_expr_binary(self, b);
    }
    fn visit_expr_unary(&mut self, u: &'ast syn::ExprUnary) {
        if matches!(u.op, syn::UnOp::Neg(_)) && !matches!(&*u.expr, Expr::Lit(_)) {
            self.risks.push("arith");
        }
        syn::visit::visit_expr_unary(self, u);
    }
    fn visit_expr_cast(&mut self, c: &'ast syn::ExprCast) {
        self.risks.push("cast");
        syn::visit::visit_expr_cast(self, c);
    }
    fn visit_expr_unsafe(&mut self, u: &'ast syn::ExprUnsafe) {
        self.risks.push("unsafe_");
        syn::visit::visit_expr_unsafe(self, u);
    }
}

fn surface_of(b: &syn::Block, own: &HashSet<String>) -> (Vec<&'static str>, Vec<String>) {
    let mut s = Surface { risks: vec![], unknown: vec![], own };
    s.visit_block(b);
    (s.risks, s.unknown)
}

fn ctor_name(impl_ty: &str, f: &str) -> String {
    let t: String = impl_ty.chars().map(|c| if c.is_alphanumeric() { c } else { '_' }).collect();
    format!("{}_{}", t.trim_matches('_'), f)
}

fn surface_table(name: &str, fns: &[(String, Vec<&'static str>)]) -> String {
    let mut out = format!("inductive {name} where\n");
    for (c, _) in fns {
        out.push_str(&format!("  | {c}\n"));
    }
    out.push_str("  deriving DecidableEq, Repr\n\n");
    out.push_str(&format!("def {name}.all : List {name} := [{}]\n\n",
        fns.iter().map(|(c, _)| format!(".{c}")).collect::<Vec<_>>().join(", ")));
    out.push_str(&format!("def {name}.surface : {name} → List Risk\n"));
    for (c, r) in fns {
        out.push_str(&format!("  | .{c} => [{}]\n", r.iter().map(|x| format!(".{x}")).collect::<Vec<_>>().join(", ")));
    }
    out.push('\n');
    out
}

// ------------------------------------------------------------------ the walker

struct W {
    cx: RefCell<Cx>,
    /// generated functions callable as methods on `self`: (impl, method) ↦ Lean name
    self_methods: BTreeMap<String, String>,
    counter: RefCell<usize>,
}

impl W {
    fn placeholder(&self, lean: String) -> Expr {
        let mut n = self.counter.borrow_mut();
        *n += 1;
        let id = format!("lean__ph{}", *n);
        self.cx.borrow_mut().paths.insert(id.clone(), lean);
        syn::parse_str::<Expr>(&id).unwrap()
    }

    fn v(&self, e: &Expr) -> R {
        let mut e = e.clone();
        let mut err = None;
        Pre { w: self, err: &mut err }.visit_expr_mut(&mut e);
        if let Some(x) = err {
            return Err(x);
        }
        let r = self.cx.borrow().v(&e);
        r
    }

    fn pat(&self, p: &Pat) -> R {
        self.cx.borrow().pat(p)
    }

    fn block(&self, stmts: &[Stmt]) -> R {
        if stmts.is_empty() {
            return Ok("(pure ())".into());
        }
        let (first, rest) = stmts.split_first().unwrap();
        match first {
            Stmt::Local(l) => {
                let init = l.init.as_ref().ok_or("unsupported: let without initialiser")?;
                if init.diverge.is_some() {
                    return Err("unsupported: let-else".into());
                }
                let pat_inner = match &l.pat {
                    Pat::Type(pt) => &*pt.pat,
                    p => p,
                };
                let pat = self.pat(pat_inner)?;
                let rest_s = self.block(rest)?;
                if let Expr::Try(t) = &*init.expr {
                    // `let x = it.nth(n)?;` on a named iterator
                    if let Expr::MethodCall(mc) = &*t.expr {
                        if mc.method == "nth" || mc.method == "next" {
                            if let Expr::Path(p) = &*mc.receiver {
                                let it = lean_ident(&p.to_token_stream().to_string());
                                let n = match mc.args.first() {
                                    Some(a) => self.v(a)?,
                                    None => "(0 : Nat)".into(),
                                };
                                return Ok(format!("(RIter.nthQ {it} {n} (fun {pat} {it} =>\n {rest_s}))"));
                            }
                        }
                    }
                    let val = self.v(&t.expr)?;
                    if val.contains('←') {
                        return Ok(format!("(do RQ.bind {val} (fun {pat} =>\n {rest_s}))"));
                    }
                    return Ok(format!("(RQ.bind {val} (fun {pat} =>\n {rest_s}))"));
                }
                let val = self.v(&init.expr)?;
                if matches!(pat_inner, Pat::Ident(_) | Pat::Wild(_)) {
                    Ok(format!("(do\n let {pat} := {val}\n {rest_s})"))
                } else {
                    Ok(format!("(do match {val} with\n | {pat} => {rest_s})"))
                }
            }
            Stmt::Expr(Expr::If(i), _) if !rest.is_empty() => {
                if i.else_branch.is_some() || !crate::r2l::diverges(&i.then_branch.stmts) {
                    return Err("unsupported: non-diverging `if` statement".into());
                }
                let then = self.block(&i.then_branch.stmts)?;
                let els = self.block(rest)?;
                self.if_(&i.cond, then, els)
            }
            Stmt::Expr(e, semi) if rest.is_empty() => {
                if semi.is_some() && !matches!(e, Expr::Return(_)) {
                    // `f(x);` as the last statement of a unit function
                    let v = self.v(e)?;
                    return Ok(format!("(do\n let _ := {v}\n pure ())"));
                }
                self.tail(e)
            }
            other => Err(format!("unsupported statement: {}", other.to_token_stream())),
        }
    }

    fn if_(&self, cond: &Expr, then: String, els: String) -> R {
        if let Expr::Let(l) = cond {
            let scrut = self.v(&l.expr)?;
            let pat = self.pat(&l.pat)?;
            Ok(format!("(do match {scrut} with\n | {pat} => {then}\n | _ => {els})"))
        } else {
            let c = self.v(cond)?;
            Ok(format!("(do if {c} then {then} else {els})"))
        }
    }

    fn tail(&self, e: &Expr) -> R {
        match e {
            Expr::Return(r) => match &r.expr {
                Some(x) => self.tail(x),
                None => Ok("(pure ())".into()),
            },
            Expr::Block(b) => self.block(&b.block.stmts),
            Expr::Paren(p) => self.tail(&p.expr),
            Expr::If(i) => {
                let then = self.block(&i.then_branch.stmts)?;
                let els = match &i.else_branch {
                    Some((_, e)) => self.tail(e)?,
                    None => "(pure ())".into(),
                };
                self.if_(&i.cond, then, els)
            }
            Expr::Match(m) => {
                // `match scrutinee { pat => { … }, pat => expr }` in tail position (no guards)
                let scrut = self.v(&m.expr)?;
                let mut arms = String::new();
                for a in &m.arms {
                    if a.guard.is_some() {
                        return Err("unsupported: match guard".into());
                    }
                    let pat = self.pat(&a.pat)?;
                    let body = self.tail(&a.body)?;
                    arms.push_str(&format!("\n | {pat} => {body}"));
                }
                Ok(format!("(do match {scrut} with{arms})"))
            }
            other => Ok(format!("(do pure {})", self.v(other)?)),
        }
    }
}

/// Rewrites the shapes r2l does not know into placeholders with a fixed Lean text.
struct Pre<'a> {
    w: &'a W,
    err: &'a mut Option<String>,
}

impl Pre<'_> {
    fn closure1(&mut self, e: &Expr) -> Option<(String, String)> {
        if let Expr::Closure(c) = e {
            if c.inputs.len() == 1 {
                let p = match self.w.pat(&c.inputs[0]) {
                    Ok(p) => p,
                    Err(x) => {
                        *self.err = Some(x);
                        return None;
                    }
                };
                match self.w.cx.borrow().v(&c.body) {
                    Ok(b) => return Some((p, b)),
                    Err(x) => {
                        *self.err = Some(x);
                        return None;
                    }
                }
            }
        }
        None
    }
    fn lean(&mut self, e: &Expr) -> String {
        match self.w.cx.borrow().v(e) {
            Ok(s) => s,
            Err(x) => {
                *self.err = Some(x);
                String::new()
            }
        }
    }
}

impl VisitMut for Pre<'_> {
    fn visit_expr_mut(&mut self, e: &mut Expr) {
        // children first
        syn::visit_mut::visit_expr_mut(self, e);
        if self.err.is_some() {
            return;
        }
        let new: Option<Expr> = match e {
            Expr::Try(_) => {
                *self.err = Some("unsupported: `?` below statement level".into());
                None
            }
            Expr::Index(ix) => match &*ix.index {
                Expr::Range(r) => {
                    let recv = self.lean(&ix.expr);
                    match (&r.start, &r.end) {
                        (Some(a), Some(b)) if matches!(r.limits, syn::RangeLimits::HalfOpen(_)) => {
                            let (a, b) = (self.lean(a), self.lean(b));
                            Some(self.w.placeholder(format!("(← Str.index_range {recv} {a} {b})")))
                        }
                        (Some(a), None) => {
                            let a = self.lean(a);
                            Some(self.w.placeholder(format!("(← Str.index_from {recv} {a})")))
                        }
                        (None, Some(b)) if matches!(r.limits, syn::RangeLimits::HalfOpen(_)) => {
                            let b = self.lean(b);
                            Some(self.w.placeholder(format!("(← Str.index_range {recv} (0 : Nat) {b})")))
                        }
                        _ => {
                            *self.err = Some("unsupported range form in an index expression".into());
                            None
                        }
                    }
                }
                _ => {
                    *self.err = Some("unsupported: non-range index expression".into());
                    None
                }
            },
            Expr::MethodCall(mc) => {
                let name = mc.method.to_string();
                let recv_txt = mc.receiver.to_token_stream().to_string().replace(' ', "");
                let args: Vec<Expr> = mc.args.iter().cloned().collect();
                if name == "get" && args.len() == 1 && matches!(args[0], Expr::Range(_)) {
                    let Expr::Range(r) = &args[0] else { unreachable!() };
                    let recv = self.lean(&mc.receiver);
                    match (&r.start, &r.end) {
                        (Some(a), Some(b)) if matches!(r.limits, syn::RangeLimits::HalfOpen(_)) => {
                            let (a, b) = (self.lean(a), self.lean(b));
                            Some(self.w.placeholder(format!("(Str.get_range {recv} {a} {b})")))
                        }
                        (Some(a), None) => {
                            let a = self.lean(a);
                            Some(self.w.placeholder(format!("(Str.get_from {recv} {a})")))
                        }
                        _ => {
                            *self.err = Some("unsupported range form in `get`".into());
                            None
                        }
                    }
                } else if name == "then_some" && args.len() == 1 {
                    let (c, v) = (self.lean(&mc.receiver), self.lean(&args[0]));
                    Some(self.w.placeholder(format!("(if {c} then some {v} else none)")))
                } else if name == "then" && args.len() == 1 && matches!(&args[0], Expr::Closure(c) if c.inputs.is_empty()) {
                    // `cond.then(|| value)`
                    let Expr::Closure(cl) = &args[0] else { unreachable!() };
                    let (c, v) = (self.lean(&mc.receiver), self.lean(&cl.body));
                    if v.contains('←') {
                        *self.err = Some("unsupported: fallible closure in `then`".into());
                        None
                    } else {
                        Some(self.w.placeholder(format!("(if {c} then some {v} else none)")))
                    }
                } else if (name == "and_then" || name == "map") && args.len() == 1 {
                    if let Some((p, b)) = self.closure1(&args[0]) {
                        let recv = self.lean(&mc.receiver);
                        if b.contains('←') {
                            if name == "and_then" {
                                Some(self.w.placeholder(format!("(← RQ.bind {recv} (fun {p} => (do pure {b})))")))
                            } else {
                                *self.err = Some("unsupported: fallible closure in `map`".into());
                                None
                            }
                        } else if name == "and_then" {
                            Some(self.w.placeholder(format!("(Option.bind {recv} (fun {p} => {b}))")))
                        } else {
                            Some(self.w.placeholder(format!("(Option.map (fun {p} => {b}) {recv})")))
                        }
                    } else if self.err.is_none()
                        && args[0].to_token_stream().to_string().replace(' ', "") == "Into::into"
                    {
                        Some((*mc.receiver).clone())
                    } else {
                        None
                    }
                } else if recv_txt == "self" || recv_txt == "this" {
                    if let Some(f) = self.w.self_methods.get(&name).cloned() {
                        let recv = self.lean(&mc.receiver);
                        let a: Vec<String> = args.iter().map(|x| self.lean(x)).collect();
                        let a = if a.is_empty() { String::new() } else { format!(" {}", a.join(" ")) };
                        Some(self.w.placeholder(format!("(← {f} dbg {recv}{a})")))
                    } else {
                        None
                    }
                } else {
                    None
                }
            }
            _ => None,
        };
        if let Some(n) = new {
            *e = n;
        }
    }
}

// ----------------------------------------------------------------- the target

fn base_cx() -> Cx {
    let mut cx = Cx::default();
    cx.types.insert("usize".into(), "USz".into());
    cx.paths.insert("self".into(), "self_".into());
    cx.methods.insert("ok".into(), Meth::Identity);
    cx.methods.insert("try_into".into(), Meth::Pure("RInt.try_into".into()));
    cx.methods.insert("checked_sub".into(), Meth::Pure("RInt.checked_sub".into()));
    cx.methods.insert("unwrap".into(), Meth::Fallible("ROpt.unwrap".into()));
    cx.methods.insert("expect".into(), Meth::Fallible("ROpt.unwrap".into()));
    cx.methods.insert("chars".into(), Meth::Identity);
    cx.methods.insert("next".into(), Meth::Pure("Str.next_char".into()));
    cx.methods.insert("nth".into(), Meth::Pure("Str.nth_char".into()));
    cx.methods.insert("len".into(), Meth::Pure("Str.len".into()));
    cx.methods.insert("count".into(), Meth::Pure("RCount.count".into()));
    cx.methods.insert("lines".into(), Meth::Pure("Str.lines".into()));
    cx.methods.insert("repeat".into(), Meth::Pure("Str.repeat".into()));
    cx.methods.insert("splitn".into(), Meth::Pure("Str.splitn".into()));
    cx.methods.insert("rsplitn".into(), Meth::Pure("Str.rsplitn".into()));
    cx.methods.insert("collect".into(), Meth::Identity);
    cx.methods.insert("to_vec".into(), Meth::Identity);
    cx.methods.insert("join".into(), Meth::Pure("Str.join".into()));
    // the substring family of `str` (Model/Builtins), and the byte-offset vocabulary a
    // hand-written replacement of one of them would use (`split_at` panics off a boundary)
    for m in ["contains", "starts_with", "ends_with", "strip_prefix", "strip_suffix", "split", "is_empty",
        "is_char_boundary", "split_at_checked"] {
        cx.methods.insert(m.into(), Meth::Pure(format!("Str.{m}")));
    }
    cx.methods.insert("split_at".into(), Meth::Fallible("Str.split_at".into()));
    cx.paths.insert("Prefix::new_relaxed".into(), "Prefix.new_relaxed".into());
    cx
}

/// One generated function: binders, return type, translated body.
fn emit(w: &W, lean_name: &str, binders: &str, ret: &str, block: &syn::Block) -> R {
    let body = w.block(&block.stmts).map_err(|e| format!("{lean_name}: {e}"))?;
    Ok(format!("def {lean_name} (dbg : Bool) {binders} : Res ({ret}) :=\n {body}\n\n"))
}

fn replace(block: &mut syn::Block, pairs: &[(&str, &str)], require: &[(&str, usize)], who: &str) -> Result<(), String> {
    let mut rp = ExprReplacer::new(pairs);
    rp.visit_block_mut(block);
    for (k, n) in require {
        rp.require(k, *n).map_err(|e| format!("{who}: {e}"))?;
    }
    Ok(())
}

pub fn c10builtins(repo: &Path) -> Result<String, String> {
    let basic = find::parse(repo, "src/runtime/basic.rs")?;
    let string = find::parse(repo, "src/value/string.rs")?;
    let list = find::parse(repo, "src/value/list.rs")?;
    let mut out = header("C10Builtins", &["src/runtime/basic.rs", "src/value/string.rs", "src/value/list.rs"])
        .replace("import RotoV.Model.Clif\n", "import RotoV.Model.Clif\nimport RotoV.Model.Builtins\n");
    out.push_str("variable [Target]\n\n");
    out.push_str("class RCount (α : Type) where\n  count : α → USz\ninstance : RCount Str := ⟨Str.count_chars⟩\ninstance : RCount (List Str) := ⟨fun l => RInt.ofInt _ _ l.length⟩\n\n");

    // ---------------------------------------------------- src/value/string.rs
    let mut w = W { cx: RefCell::new(base_cx()), self_methods: BTreeMap::new(), counter: RefCell::new(0) };
    let s0 = [("self.0.0", "s")];
    let str_fns: [(&str, &str, &str, &str, &str); 8] = [
        ("StringBytes", "len", "StringBytes_len", "(s : Str)", "USz"),
        ("StringBytes", "get", "StringBytes_get", "(s : Str) (idx : USz)", "Option Char"),
        ("StringBytes", "slice", "StringBytes_slice", "(s : Str) (i j : USz)", "Option Str"),
        ("StringChars", "len", "StringChars_len", "(s : Str)", "USz"),
        ("StringChars", "get", "StringChars_get", "(s : Str) (idx : USz)", "Option Char"),
        ("StringLines", "len", "StringLines_len", "(s : Str)", "USz"),
        ("StringLines", "get", "StringLines_get", "(s : Str) (idx : USz)", "Option Char"),
        ("RotoString", "repeat", "RotoString_repeat", "(s : Str) (n : USz)", "Lim Str"),
    ];
    for (imp, f, lean, binders, ret) in str_fns {
        let mut fb = find::func(&string, f, Some(imp))?;
        replace(&mut fb.block, &s0, &[("self.0.0", 1)], lean)?;
        out.push_str(&emit(&w, lean, binders, ret, &fb.block)?);
    }
    for (f, lean) in [("splitn", "RotoString_splitn"), ("rsplitn", "RotoString_rsplitn")] {
        let mut fb = find::func(&string, f, Some("RotoString"))?;
        let from = format!("self.0.0.{f}(n, separator).map(Into::into).collect()");
        let to = format!("s.{f}(n, separator)");
        replace(&mut fb.block, &[(&from, &to)], &[(&from, 1)], lean)?;
        out.push_str(&emit(&w, lean, "(s : Str) (n : USz) (separator : Str)", "List Str", &fb.block)?);
    }
    {
        // the substring family of RotoString: one std call each on this tree; transliterated, so that a
        // hand-written replacement (byte offsets, `split_at`, indexing) becomes checked code the theorems
        // `*_no_panic` have to discharge — or leaves the subset (extraction failure)
        let w3 = W { cx: RefCell::new(base_cx()), self_methods: BTreeMap::new(), counter: RefCell::new(0) };
        w3.cx.borrow_mut().paths.insert("self".into(), "s".into());
        let sub_fns: [(&str, &str, &str); 6] = [
            ("contains", "(s : Str) (needle : Str)", "Bool"),
            ("starts_with", "(s : Str) (prefix_ : Str)", "Bool"),
            ("ends_with", "(s : Str) (suffix : Str)", "Bool"),
            ("strip_prefix", "(s : Str) (prefix_ : Str)", "Option Str"),
            ("strip_suffix", "(s : Str) (suffix : Str)", "Option Str"),
            ("split", "(s : Str) (separator : Str)", "List Str"),
        ];
        for (f, binders, ret) in sub_fns {
            let lean = format!("RotoString_{f}");
            let mut fb = find::func(&string, f, Some("RotoString"))?;
            replace(&mut fb.block, &s0, &[("self.0.0", 1)], &lean)?;
            out.push_str(&emit(&w3, &lean, binders, ret, &fb.block)?);
        }
    }
    {
        // StringChars::slice: the iterator expression is named, the rest is transliterated
        let mut fb = find::func(&string, "slice", Some("StringChars"))?;
        let it = "self.0.0.char_indices().map(|(byte, _)| byte).chain(std::iter::once(self.0.0.len()))";
        // the same iterator over a local `let s = &self.0.0;`
        let it2 = "s.char_indices().map(|(byte, _)| byte).chain(std::iter::once(s.len()))";
        let mut fb2 = fb.clone();
        if replace(&mut fb.block, &[(it, "str_boundary_iter(s)"), ("\"\".into()", "str_empty"), ("self.0.0", "s")],
            &[(it, 1), ("self.0.0", 1)], "StringChars_slice").is_err() {
            replace(&mut fb2.block, &[(it2, "str_boundary_iter(s)"), ("\"\".into()", "str_empty"), ("self.0.0", "s")],
                &[(it2, 1), ("self.0.0", 1)], "StringChars_slice")?;
            fb = fb2;
        }
        w.cx.borrow_mut().paths.insert("str_boundary_iter".into(), "Str.boundary_iter".into());
        w.cx.borrow_mut().paths.insert("str_empty".into(), "Str.empty".into());
        out.push_str(&emit(&w, "StringChars_slice", "(s : Str) (i j : USz)", "Option Str", &fb.block)?);
    }
    {
        // StringLines::slice: transliterated statement by statement.  Its two loops have the shape
        //     let mut CUR = INIT; for _ in A..B { let idx = IT.next()?; CUR = idx; }
        // (a manual skip/take that answers `None` when the iterator runs dry); each is read as
        //     let (CUR, IT) = str_advance(IT, A, B, INIT)?;        (`Str.advanceR`, Model/Builtins)
        // and the newline-offset iterator expression is named (`Str.after_newlines`: `byte + 1` is bounded by
        // the string's length).  Everything else — the `checked_sub`, the optional end offset, the `num == 0`
        // early return, `chain`, the final `&s[start_idx..end_idx]` — is the source's.  Any other loop shape
        // fails extraction.
        let mut fb = find::func(&string, "slice", Some("StringLines"))?;
        let it = "s.match_indices('\\n').map(|(byte, _)| byte + 1)";
        replace(&mut fb.block, &[(it, "str_after_newlines(s)"), ("s.ends_with('\\n')", "str_ends_with_nl(s)"),
            ("Some(s.len())", "Some(str_byte_len(s))"), ("RotoString::new(\"\")", "str_empty"), ("self.0.0", "s")],
            &[(it, 1), ("s.ends_with('\\n')", 1), ("Some(s.len())", 1), ("self.0.0", 1)], "StringLines_slice")?;
        let norm = |x: &dyn ToTokens| x.to_token_stream().to_string().replace(' ', "");
        let mut stmts: Vec<Stmt> = vec![];
        let src = fb.block.stmts.clone();
        let mut k = 0;
        let mut loops = 0;
        while k < src.len() {
            if let (Stmt::Local(l), Some(Stmt::Expr(Expr::ForLoop(fl), _))) = (&src[k], src.get(k + 1)) {
                // `let mut CUR = INIT;` followed by the loop
                let cur = match &l.pat { Pat::Ident(pi) if pi.mutability.is_some() => pi.ident.to_string(), _ => String::new() };
                let init = l.init.as_ref().map(|i| norm(&i.expr)).unwrap_or_default();
                let (a, b) = match &*fl.expr {
                    Expr::Range(r) if matches!(r.limits, syn::RangeLimits::HalfOpen(_)) => match (&r.start, &r.end) {
                        (Some(a), Some(b)) => (norm(a), norm(b)),
                        _ => return Err("StringLines::slice: loop range without both ends".into()),
                    },
                    other => return Err(format!("StringLines::slice: loop over `{}`", norm(other))),
                };
                let body: Vec<String> = fl.body.stmts.iter().map(|s| norm(s)).collect();
                // `let V = IT.next()?; CUR = V;` (any names)
                let (var, iter_name) = body.first().and_then(|s| s.strip_prefix("let")).and_then(|s| s.strip_suffix(".next()?;"))
                    .and_then(|s| s.split_once('=')).map(|(v, it)| (v.to_string(), it.to_string())).unwrap_or_default();
                let is_ident = |x: &str| !x.is_empty() && x.chars().all(|c| c.is_alphanumeric() || c == '_');
                let mut ok = !cur.is_empty() && norm(&fl.pat) == "_" && body.len() == 2 && is_ident(&var) && is_ident(&iter_name)
                    && body[1] == format!("{cur}={var};");
                // … or without the temporary: `CUR = IT.next()?;`
                let mut iter_name = iter_name;
                if !ok && !cur.is_empty() && norm(&fl.pat) == "_" && body.len() == 1 {
                    if let Some(it) = body[0].strip_prefix(&format!("{cur}=")).and_then(|s| s.strip_suffix(".next()?;")) {
                        if is_ident(it) {
                            iter_name = it.to_string();
                            ok = true;
                        }
                    }
                }
                if !ok {
                    return Err(format!("StringLines::slice: loop not of the skip/take shape: let mut {cur} = {init}; for {} in {a}..{b} {{ {} }}", norm(&fl.pat), body.join(" ")));
                }
                let st = format!("let ({cur}, {iter_name}) = str_advance({iter_name}, {a}, {b}, {init})?;");
                stmts.push(syn::parse_str::<Stmt>(&st).map_err(|e| format!("StringLines::slice: {e}"))?);
                loops += 1;
                k += 2;
                continue;
            }
            if matches!(&src[k], Stmt::Expr(Expr::ForLoop(_), _) | Stmt::Expr(Expr::While(_), _) | Stmt::Expr(Expr::Loop(_), _)) {
                return Err("StringLines::slice: a loop that is not preceded by `let mut CUR = INIT;`".into());
            }
            stmts.push(src[k].clone());
            k += 1;
        }
        if loops != 2 {
            return Err(format!("StringLines::slice: expected two skip/take loops, found {loops}"));
        }
        let w4 = W { cx: RefCell::new(base_cx()), self_methods: BTreeMap::new(), counter: RefCell::new(0) };
        {
            let mut cx = w4.cx.borrow_mut();
            for (r, l) in [("str_after_newlines", "Str.after_newlines"), ("str_ends_with_nl", "Str.ends_with_nl"),
                ("str_byte_len", "Str.byteLen"), ("str_empty", "Str.empty"), ("str_advance", "Str.advanceR")] {
                cx.paths.insert(r.into(), l.into());
            }
            cx.methods.insert("chain".into(), Meth::Pure("Str.chain_opt".into()));
        }
        let blk = syn::Block { brace_token: Default::default(), stmts };
        out.push_str(&emit(&w4, "StringLines_slice", "(s : Str) (i j : USz)", "Option Str", &blk)?);
    }

    // ------------------------------------------------------ src/value/list.rs
    {
        let mut w2 = W { cx: RefCell::new(base_cx()), self_methods: BTreeMap::new(), counter: RefCell::new(0) };
        let mut f = find::func(&list, "offset_of", Some("RawList"))?;
        replace(&mut f.block, &[("self.vtable.size()", "self.size")], &[("self.vtable.size()", 1)], "RawList_offset_of")?;
        out.push_str(&emit(&w2, "RawList_offset_of", "(self_ : RawListS) (n : USz)", "USz", &f.block)?);
        w2.self_methods.insert("offset_of".into(), "RawList_offset_of".into());
        // get: bounds check + offset; the pointer arithmetic that follows is outside the model
        let f = find::func(&list, "get", Some("RawList"))?;
        let mut stmts: Vec<Stmt> = f.block.stmts.iter().take(2).cloned().collect();
        let txt: Vec<String> = stmts.iter().map(|s| s.to_token_stream().to_string().replace(' ', "")).collect();
        if txt.len() != 2 || !txt[1].starts_with("letoffset=self.offset_of(idx)") {
            return Err(format!("RawList::get: unexpected shape: {txt:?}"));
        }
        stmts.push(syn::parse_str::<Stmt>("return Some(offset);").unwrap());
        out.push_str(&emit(&w2, "RawList_get", "(self_ : RawListS) (idx : USz)", "Option USz", &syn::Block { brace_token: Default::default(), stmts })?);
        // swap: the two bounds checks, the i == j check, the two offsets
        let f = find::func(&list, "swap", Some("RawList"))?;
        let mut stmts: Vec<Stmt> = f.block.stmts.iter().take(4).cloned().collect();
        let txt: Vec<String> = stmts.iter().map(|s| s.to_token_stream().to_string().replace(' ', "")).collect();
        if txt.len() != 4 || !txt[2].starts_with("leti=self.offset_of(i)") || !txt[3].starts_with("letj=self.offset_of(j)") {
            return Err(format!("RawList::swap: unexpected shape: {txt:?}"));
        }
        let mut blk = syn::Block { brace_token: Default::default(), stmts: std::mem::take(&mut stmts) };
        replace(&mut blk, &[("return", "return None")], &[("return", 2)], "RawList_swap")?;
        blk.stmts.push(syn::parse_str::<Stmt>("return Some((i, j));").unwrap());
        out.push_str(&emit(&w2, "RawList_swap", "(self_ : RawListS) (i j : USz)", "Option (USz × USz)", &blk)?);
        // list_get: `let idx = idx.try_into().ok(); match idx.and_then(|idx| this.get(idx)) { … }`
        let f = find::func(&list, "list_get", None)?;
        let first = f.block.stmts.first().ok_or("list_get: empty")?.clone();
        // between the index conversion and the lookup only the lock acquisition
        // (`let raw = this.0.lock().unwrap();`, the lock events are C10C's / C16's
        // subject) and cfg(verif-hooks) statements may stand
        let mut scrut = None;
        let mut pending: Option<(String, Expr)> = None;
        for st in f.block.stmts.iter().skip(1) {
            let txt = st.to_token_stream().to_string().replace(' ', "");
            if txt.starts_with("#[cfg(feature=\"verif-hooks\")]") { continue; }
            if let Stmt::Local(_) = st {
                // `let raw = this.0.lock().unwrap();`, or through a guard helper: `let raw = this.raw();`
                if let Some((_, rhs)) = txt.split_once("=this.") {
                    let helper_call = rhs.strip_suffix("();").is_some_and(|n| !n.is_empty() && n.chars().all(|c| c.is_alphanumeric() || c == '_'));
                    if rhs == "0.lock().unwrap();" || helper_call { continue; }
                }
            }
            // the lookup bound to a local first: `let looked_up = <expr with .get(..)>; match looked_up { … }`
            if let Stmt::Local(l) = st {
                if let (Pat::Ident(pi), Some(init)) = (&l.pat, &l.init) {
                    if pending.is_none() && init.diverge.is_none() && txt.contains(".get(") {
                        pending = Some((pi.ident.to_string(), (*init.expr).clone()));
                        continue;
                    }
                }
            }
            if let Stmt::Expr(Expr::Match(m), _) = st {
                scrut = match &pending {
                    Some((name, e)) if m.expr.to_token_stream().to_string().replace(' ', "") == *name => Some(e.clone()),
                    Some(_) => None,
                    None => Some((*m.expr).clone()),
                };
            }
            break;
        }
        let scrut = scrut.ok_or("list_get: expected `match idx.and_then(..)` after the index conversion (and the lock acquisition)")?;
        // the guard dereferences to the same RawList the binding names `this`
        let scrut: Expr = syn::parse_str(&scrut.to_token_stream().to_string().replace("raw . get", "this . get"))
            .map_err(|e| format!("list_get: {e}"))?;
        w2.self_methods.insert("get".into(), "RawList_get".into());
        let blk = syn::Block { brace_token: Default::default(), stmts: vec![first, Stmt::Expr(scrut, None)] };
        out.push_str(&emit(&w2, "list_get_lookup", "(this : RawListS) (idx : U64)", "Option USz", &blk)?);
        // ErasedList::swap binding (`self.swap(i as usize, j as usize)`) is emitted below with the bindings
    }

    // ------------------------------------------------ src/runtime/basic.rs
    let fns = library_fns(&basic)?;
    let find_fn = |imp: &str, name: &str| -> Result<LibFn, String> {
        let hits: Vec<&LibFn> = fns.iter().filter(|f| f.impl_ty == imp && f.name == name).collect();
        match hits.len() {
            1 => Ok(hits[0].clone()),
            n => Err(format!("binding {imp}.{name}: {n} definitions found in library! blocks")),
        }
    };
    let bindings: [(&str, &str, &str, &str, &str, &[(&str, &str)]); 21] = [
        ("StringBytes", "len", "(self_ : Str)", "U64", "StringBytes", &[("len", "StringBytes_len")]),
        ("StringBytes", "get", "(self_ : Str) (idx : U64)", "Option Char", "StringBytes", &[("get", "StringBytes_get")]),
        ("StringBytes", "slice", "(self_ : Str) (start end_ : U64)", "Option Str", "StringBytes", &[("slice", "StringBytes_slice")]),
        ("StringChars", "len", "(self_ : Str)", "U64", "StringChars", &[("len", "StringChars_len")]),
        ("StringChars", "get", "(self_ : Str) (idx : U64)", "Option Char", "StringChars", &[("get", "StringChars_get")]),
        ("StringChars", "slice", "(self_ : Str) (start end_ : U64)", "Option Str", "StringChars", &[("slice", "StringChars_slice")]),
        ("StringLines", "len", "(self_ : Str)", "U64", "StringLines", &[("len", "StringLines_len")]),
        ("StringLines", "get", "(self_ : Str) (idx : U64)", "Option Char", "StringLines", &[("get", "StringLines_get")]),
        ("StringLines", "slice", "(self_ : Str) (start end_ : U64)", "Option Str", "StringLines", &[("slice", "StringLines_slice")]),
        ("RotoString", "repeat", "(self_ : Str) (n : U64)", "Lim Str", "String", &[("repeat", "RotoString_repeat")]),
        ("RotoString", "splitn", "(self_ : Str) (n : U64) (separator : Str)", "List Str", "String", &[("splitn", "RotoString_splitn")]),
        ("RotoString", "rsplitn", "(self_ : Str) (n : U64) (separator : Str)", "List Str", "String", &[("rsplitn", "RotoString_rsplitn")]),
        ("RotoString", "contains", "(self_ : Str) (needle : Str)", "Bool", "String", &[("contains", "RotoString_contains")]),
        ("RotoString", "starts_with", "(self_ : Str) (prefix_ : Str)", "Bool", "String", &[("starts_with", "RotoString_starts_with")]),
        ("RotoString", "ends_with", "(self_ : Str) (suffix : Str)", "Bool", "String", &[("ends_with", "RotoString_ends_with")]),
        ("RotoString", "strip_prefix", "(self_ : Str) (prefix_ : Str)", "Option Str", "String", &[("strip_prefix", "RotoString_strip_prefix")]),
        ("RotoString", "strip_suffix", "(self_ : Str) (suffix : Str)", "Option Str", "String", &[("strip_suffix", "RotoString_strip_suffix")]),
        ("RotoString", "split", "(self_ : Str) (separator : Str)", "List Str", "String", &[("split", "RotoString_split")]),
        ("Prefix", "new", "(ip : IpAddr) (len : U8)", "Prefix", "Prefix", &[]),
        ("ErasedList", "swap", "(self_ : RawListS) (i j : U64)", "Option (USz × USz)", "List", &[("swap", "RawList_swap")]),
        // `List.join`: the list of strings as the host-side `List<RotoString>` it is transmuted to;
        // any size/capacity arithmetic written into the binding is transliterated (and must be proved)
        ("ErasedList", "join", "(self_ : List Str) (separator : Str)", "Str", "List", &[]),
    ];
    for (imp, name, binders, ret, _roto, methods) in bindings {
        let f = find_fn(imp, name)?;
        w.self_methods.clear();
        for (m, l) in methods {
            w.self_methods.insert(m.to_string(), l.to_string());
        }
        let mut blk = f.body.clone();
        // `&separator` is handled by r2l (references are transparent)
        if imp == "ErasedList" && name == "join" {
            let tm = "unsafe{std::mem::transmute::<ErasedList,List<RotoString>>(self)}";
            replace(&mut blk, &[(tm, "self")], &[(tm, 1)], "bind_ErasedList_join")?;
        }
        if imp == "ErasedList" && name == "swap" {
            // `self.swap(i, j);` is the last statement of a unit function: keep its result
            if let Some(Stmt::Expr(e, semi)) = blk.stmts.last_mut() {
                let _ = e;
                *semi = None;
            }
        }
        out.push_str(&emit(&w, &format!("bind_{}_{}", imp, name), binders, ret, &blk)?);
    }

    // ------------------------------------------------------- panic surfaces
    out.push_str("/-- constructs that can panic (or need care) inside a body: the syntactic ones, and every call\n    classified against the translator's tables of std functions — `partial_call`: documented to panic on\n    some arguments (`split_at`, `remove`, `with_capacity`, `sum`, …); `unknown_call`: not in the table of\n    functions read as total -/\ninductive Risk where\n  | unwrap | expect | index | panic_macro | arith | cast | unsafe_ | partial_call | unknown_call | lock_unwrap\n  deriving DecidableEq, Repr\n\n");
    // the project's own value-type methods: every inherent method of string.rs and every fn of list.rs
    struct Names(HashSet<String>);
    impl<'ast> Visit<'ast> for Names {
        fn visit_impl_item_fn(&mut self, f: &'ast syn::ImplItemFn) {
            self.0.insert(f.sig.ident.to_string());
        }
        fn visit_item_fn(&mut self, f: &'ast syn::ItemFn) {
            self.0.insert(f.sig.ident.to_string());
        }
        fn visit_item_mod(&mut self, m: &'ast syn::ItemMod) {
            if m.ident != "tests" {
                syn::visit::visit_item_mod(self, m);
            }
        }
    }
    let mut own = Names(HashSet::new());
    let string_buf = find::parse(repo, "src/value/string_buf.rs")?;
    own.visit_file(&string);
    own.visit_file(&string_buf);
    own.visit_file(&list);
    let own = own.0;
    let mut notes: Vec<String> = vec![];
    let mut seen = HashSet::new();
    let mut tab = vec![];
    for f in &fns {
        let mut c = ctor_name(&f.impl_ty, &f.name);
        while !seen.insert(c.clone()) {
            c.push('\'');
        }
        let (risks, unknown) = surface_of(&f.body, &own);
        if !unknown.is_empty() {
            notes.push(format!("Binding.{c}: {}", unknown.join(", ")));
        }
        tab.push((c, risks));
    }
    if tab.len() < 60 {
        return Err(format!("only {} binding functions found in basic.rs's library! blocks", tab.len()));
    }
    out.push_str(&surface_table("Binding", &tab));
    // every method of string.rs
    struct M<'o>(Vec<(String, Vec<&'static str>)>, Option<String>, &'o HashSet<String>, Vec<String>);
    impl<'ast> Visit<'ast> for M<'_> {
        fn visit_item_impl(&mut self, i: &'ast syn::ItemImpl) {
            if i.trait_.is_none() {
                self.1 = Some(i.self_ty.to_token_stream().to_string().replace(' ', ""));
                syn::visit::visit_item_impl(self, i);
                self.1 = None;
            }
        }
        fn visit_impl_item_fn(&mut self, f: &'ast syn::ImplItemFn) {
            if let Some(t) = &self.1 {
                let c = ctor_name(t, &f.sig.ident.to_string());
                let (risks, unknown) = surface_of(&f.block, self.2);
                if !unknown.is_empty() {
                    self.3.push(format!("StrFn.{c}: {}", unknown.join(", ")));
                }
                self.0.push((c, risks));
            }
        }
        fn visit_item_mod(&mut self, _m: &'ast syn::ItemMod) {} // skip `mod tests`
    }
    let mut m = M(vec![], None, &own, vec![]);
    m.visit_file(&string);
    m.visit_file(&string_buf);
    out.push_str(&surface_table("StrFn", &m.0));
    notes.extend(m.3);
    if !notes.is_empty() {
        out.push_str("/- calls the translator's tables do not know (each is a `Risk.unknown_call` above):\n");
        for n in &notes {
            out.push_str(&format!("   {n}\n"));
        }
        out.push_str("-/\n\n");
    }
    out.push_str(&footer("C10Builtins"));
    Ok(out)
}

// =============================================================== lock sites
//
// `c10locks` → `Generated/C10Locks.lean`: for every function of
// `src/value/list.rs` (outside `mod tests`) and every binding body of
// `src/runtime/basic.rs` that touches a mutex, the lock events as written, as a
// TREE that follows the control flow: each acquisition with its kind (blocking
// `.lock()` / `.try_lock()`), what happens to the `Err` of its result (`unwrap`
// / `expect` / anything else), which list it locks (receiver `self`/`this`,
// `other`, a list created in the function), each release (`drop(guard)`, end of
// the statement for a temporary guard, end of the block for a named one, every
// guard at a `return`), and one `branch` node per `if`/`else`, `match` arm, loop
// body, early `return` or `?` that matters for the locks.  The condition of a
// branch is recorded where it compares the two lists' addresses
// (`Arc::ptr_eq(&self.0, &other.0)`, `Arc::as_ptr(&self.0) < Arc::as_ptr(&other.0)`
// and its variants); every other condition is `opaque` (both sides possible).
// Guards that a block hands to an enclosing `let (a, b) = if … { …; (a, b) } else { … }`
// stay held under the outer names.  `#[cfg(feature = "verif-hooks")]` statements
// are skipped.  A helper that returns a `MutexGuard` is resolved at its call
// sites.  Any other shape that involves a lock is an extraction failure.
// `RotoV.Model.MutexPanic` gives the tree its meaning.

#[derive(Clone, Debug, PartialEq)]
enum LEv {
    Acq { kind: &'static str, on_fail: &'static str, tgt: &'static str },
    Rel(&'static str),
    Assume(&'static str, bool),
}

#[derive(Debug)]
enum LTree {
    Done,
    Ev(LEv, Box<LTree>),
    Branch(&'static str, Box<LTree>, Box<LTree>),
}

fn strip(e: &impl ToTokens) -> String {
    e.to_token_stream().to_string().replace(' ', "")
}

fn first_ident(recv: &str) -> String {
    let r = recv.trim_start_matches('&').trim_start_matches('(').trim_start_matches('&');
    r.chars().take_while(|c| c.is_alphanumeric() || *c == '_').collect()
}

#[derive(Clone, Debug)]
struct Held {
    /// binding name (None for a temporary, or once shadowed)
    name: Option<String>,
    tgt: &'static str,
    temp: bool,
}

/// one control-flow path in progress
#[derive(Clone, Default, Debug)]
struct Cfg {
    path: Vec<LEv>,
    held: Vec<Held>,
    /// `let swap = <address comparison>;` ↦ (condition, polarity)
    flags: BTreeMap<String, (&'static str, bool)>,
    /// names bound to a list created in this function (`let new = Self::new(..)`)
    fresh: HashSet<String>,
    /// `self`/`this`/`other` re-bound by a `let`: no longer the list argument
    rebound: HashSet<String>,
}

impl Cfg {
    fn tgt(&self, recv: &str) -> &'static str {
        let first = first_ident(recv);
        if self.rebound.contains(&first) {
            return "unknown";
        }
        if self.fresh.contains(&first) {
            return "fresh";
        }
        match first.as_str() {
            "self" | "this" | "self_" => "self_",
            "other" => "other",
            _ => "unknown",
        }
    }
    fn release_from(&mut self, mark: usize, temps_only: bool) {
        let mut i = self.held.len();
        while i > mark {
            i -= 1;
            if !temps_only || self.held[i].temp {
                let h = self.held.remove(i);
                self.path.push(LEv::Rel(h.tgt));
            }
        }
    }
    fn shadow(&mut self, name: &str) {
        for h in self.held.iter_mut() {
            if h.name.as_deref() == Some(name) {
                h.name = None;
            }
        }
        self.flags.remove(name);
        self.fresh.remove(name);
        if ["self", "this", "other"].contains(&name) {
            self.rebound.insert(name.to_string());
        }
    }
}

/// the guards a block hands to the enclosing `let` pattern, slot by slot
type Moves = Vec<Option<&'static str>>;
type Helpers = BTreeMap<String, (&'static str, &'static str)>;

/// which of the two list arguments an `Arc` expression (`&self.0`, `&other.inner.0`) names
fn arc_side(txt: &str, cfg: &Cfg) -> Option<&'static str> {
    let t = txt.trim_start_matches('&');
    if !t.ends_with(".0") {
        return None;
    }
    match cfg.tgt(t) {
        "self_" => Some("self_"),
        "other" => Some("other"),
        _ => None,
    }
}

/// A condition on the addresses of the two lists ↦ (condition, polarity): the
/// expression is true iff `condition == polarity`.  `Ok(None)`: the expression
/// says nothing about addresses (opaque).  An expression that mentions
/// `Arc::as_ptr`/`ptr_eq` in any other shape is an error.
fn cond_of(e: &Expr, cfg: &Cfg) -> Result<Option<(&'static str, bool)>, String> {
    match e {
        Expr::Paren(p) => return cond_of(&p.expr, cfg),
        Expr::Unary(u) if matches!(u.op, syn::UnOp::Not(_)) => {
            return Ok(cond_of(&u.expr, cfg)?.map(|(c, p)| (c, !p)));
        }
        Expr::Path(p) => {
            if let Some(f) = cfg.flags.get(&strip(p)) {
                return Ok(Some(*f));
            }
        }
        Expr::Call(c) if strip(&c.func) == "Arc::ptr_eq" && c.args.len() == 2 => {
            let (a, b) = (arc_side(&strip(&c.args[0]), cfg), arc_side(&strip(&c.args[1]), cfg));
            return match (a, b) {
                (Some(x), Some(y)) if x != y => Ok(Some(("same", true))),
                _ => Err(format!("unsupported: Arc::ptr_eq on something other than the two list arguments: {}", strip(e))),
            };
        }
        Expr::Binary(b) => {
            let side = |x: &Expr| -> Option<&'static str> {
                let t = strip(x);
                let inner = t.strip_prefix("Arc::as_ptr(")?.strip_suffix(')')?;
                arc_side(inner, cfg)
            };
            if let (Some(l), Some(r)) = (side(&b.left), side(&b.right)) {
                if l != r {
                    let self_left = l == "self_";
                    use syn::BinOp::*;
                    let r = match b.op {
                        Lt(_) => Some(if self_left { ("selfLtOther", true) } else { ("otherLtSelf", true) }),
                        Gt(_) => Some(if self_left { ("otherLtSelf", true) } else { ("selfLtOther", true) }),
                        // a <= b  ⇔  ¬ (b < a)
                        Le(_) => Some(if self_left { ("otherLtSelf", false) } else { ("selfLtOther", false) }),
                        Ge(_) => Some(if self_left { ("selfLtOther", false) } else { ("otherLtSelf", false) }),
                        Eq(_) => Some(("same", true)),
                        Ne(_) => Some(("same", false)),
                        _ => None,
                    };
                    if let Some(r) = r {
                        return Ok(Some(r));
                    }
                }
            }
        }
        _ => {}
    }
    let t = strip(e);
    if t.contains("as_ptr") || t.contains("ptr_eq") {
        return Err(format!("unsupported: address condition of an unknown shape: {t}"));
    }
    Ok(None)
}

struct TW<'h> {
    helpers: &'h Helpers,
    /// finished paths (ended by `return`, `?`, or the end of the body)
    done: Vec<Cfg>,
}

/// `<recv>.lock().unwrap()` / `.try_lock().expect(..)` / `<recv>.lock()` / `<recv>.helper()`
fn as_acq<'e>(e: &'e Expr, helpers: &Helpers, cfg: &Cfg) -> Option<(&'static str, &'static str, &'static str, &'e Expr)> {
    let Expr::MethodCall(m) = e else { return None };
    let name = m.method.to_string();
    let unwrapish = match name.as_str() {
        "unwrap" | "unwrap_unchecked" => Some("unwrap"),
        "expect" => Some("expect"),
        _ => None,
    };
    if let Some(of) = unwrapish {
        if let Expr::MethodCall(inner) = &*m.receiver {
            let k = match inner.method.to_string().as_str() {
                "lock" => Some("blocking"),
                "try_lock" => Some("try_"),
                _ => None,
            };
            if let Some(k) = k {
                return Some((k, of, cfg.tgt(&strip(&inner.receiver)), &*inner.receiver));
            }
        }
        return None;
    }
    match name.as_str() {
        "lock" if m.args.is_empty() => Some(("blocking", "other", cfg.tgt(&strip(&m.receiver)), &*m.receiver)),
        "try_lock" if m.args.is_empty() => Some(("try_", "other", cfg.tgt(&strip(&m.receiver)), &*m.receiver)),
        h if m.args.is_empty() && helpers.contains_key(h) => {
            let (k, of) = helpers[h];
            Some((k, of, cfg.tgt(&strip(&m.receiver)), &*m.receiver))
        }
        _ => None,
    }
}

fn macro_mentions_lock(ts: &TokenStream, helpers: &Helpers) -> bool {
    ts.clone().into_iter().any(|t| match t {
        TokenTree::Ident(i) => {
            let s = i.to_string();
            s == "lock" || s == "try_lock" || helpers.contains_key(&s)
        }
        TokenTree::Group(g) => macro_mentions_lock(&g.stream(), helpers),
        _ => false,
    })
}

/// does the expression contain anything that matters for the lock events: an
/// acquisition, a `drop` of a held guard, a `return`, a `?`
struct Relevant<'a> {
    helpers: &'a Helpers,
    cfg: &'a Cfg,
    in_closure: usize,
    acq: bool,
    flow: bool,
}
impl<'ast> Visit<'ast> for Relevant<'_> {
    fn visit_expr(&mut self, e: &'ast Expr) {
        if as_acq(e, self.helpers, self.cfg).is_some() {
            self.acq = true;
            return;
        }
        match e {
            Expr::Return(_) | Expr::Try(_) if self.in_closure == 0 => self.flow = true,
            Expr::Call(c) if strip(&c.func) == "drop" && c.args.len() == 1 => {
                let a = strip(&c.args[0]);
                if self.cfg.held.iter().any(|h| h.name.as_deref() == Some(a.as_str())) {
                    self.flow = true;
                }
            }
            Expr::Closure(c) => {
                self.in_closure += 1;
                self.visit_expr(&c.body);
                self.in_closure -= 1;
                return;
            }
            Expr::Macro(m) => {
                if macro_mentions_lock(&m.mac.tokens, self.helpers) {
                    self.acq = true;
                }
                return;
            }
            _ => {}
        }
        syn::visit::visit_expr(self, e);
    }
    fn visit_stmt(&mut self, s: &'ast Stmt) {
        if is_hook_stmt(s) {
            return;
        }
        if let Stmt::Macro(m) = s {
            if macro_mentions_lock(&m.mac.tokens, self.helpers) {
                self.acq = true;
            }
            return;
        }
        syn::visit::visit_stmt(self, s);
    }
    fn visit_item(&mut self, _i: &'ast syn::Item) {}
}

fn is_hook_stmt(s: &Stmt) -> bool {
    strip(s).starts_with("#[cfg(feature=\"verif-hooks\")]")
}

enum LinItem {
    Acq(&'static str, &'static str, &'static str),
    Drop(String),
    Try,
}

/// the lock events of an expression without lock-relevant control flow inside, in evaluation order
struct Lin<'a> {
    tw: &'a TW<'a>,
    cfg: &'a Cfg,
    items: Vec<LinItem>,
    err: Option<String>,
}
impl<'ast> Visit<'ast> for Lin<'_> {
    fn visit_expr(&mut self, e: &'ast Expr) {
        if self.err.is_some() {
            return;
        }
        if let Some((k, of, t, recv)) = as_acq(e, self.tw.helpers, self.cfg) {
            self.visit_expr(recv);
            self.items.push(LinItem::Acq(k, of, t));
            return;
        }
        match e {
            Expr::Call(c) if strip(&c.func) == "drop" && c.args.len() == 1 => {
                let a = strip(&c.args[0]);
                if self.cfg.held.iter().any(|h| h.name.as_deref() == Some(a.as_str())) {
                    self.items.push(LinItem::Drop(a));
                    return;
                }
            }
            Expr::Try(t) => {
                self.visit_expr(&t.expr);
                self.items.push(LinItem::Try);
                return;
            }
            Expr::Block(_) | Expr::Unsafe(_) => {
                let b = match e {
                    Expr::Block(b) => &b.block,
                    Expr::Unsafe(u) => &u.block,
                    _ => unreachable!(),
                };
                let (acq, flow) = self.tw.relevant_block(&b.stmts, self.cfg);
                if acq || flow {
                    // a block inside an expression: only its value expression may touch locks
                    let real: Vec<&Stmt> = b.stmts.iter().filter(|s| !is_hook_stmt(s)).collect();
                    match real.as_slice() {
                        [Stmt::Expr(x, None)] => self.visit_expr(x),
                        _ => self.err = Some(format!("unsupported: statements that touch a lock inside a nested block expression: {}", strip(e))),
                    }
                }
                return;
            }
            Expr::If(_) | Expr::Match(_) | Expr::While(_) | Expr::ForLoop(_) | Expr::Loop(_) | Expr::Closure(_)
            | Expr::Return(_) | Expr::Async(_) | Expr::Macro(_) | Expr::Let(_) => {
                let (acq, flow) = self.tw.relevant(e, self.cfg);
                let flow = flow && !matches!(e, Expr::Closure(_));
                if acq || flow {
                    self.err = Some(format!("unsupported: control flow that touches a lock inside an expression: {}", strip(e)));
                }
                return;
            }
            _ => {}
        }
        syn::visit::visit_expr(self, e);
    }
    fn visit_item(&mut self, _i: &'ast syn::Item) {}
}

impl<'h> TW<'h> {
    fn relevant(&self, e: &Expr, cfg: &Cfg) -> (bool, bool) {
        let mut r = Relevant { helpers: self.helpers, cfg, in_closure: 0, acq: false, flow: false };
        r.visit_expr(e);
        (r.acq, r.flow)
    }
    fn relevant_block(&self, stmts: &[Stmt], cfg: &Cfg) -> (bool, bool) {
        let mut r = Relevant { helpers: self.helpers, cfg, in_closure: 0, acq: false, flow: false };
        for s in stmts {
            r.visit_stmt(s);
        }
        (r.acq, r.flow)
    }

    /// finish a path: every guard still held is released
    fn finish(&mut self, mut cfg: Cfg) {
        cfg.release_from(0, false);
        self.done.push(cfg);
    }

    /// An expression without lock-relevant control flow: its acquisitions become
    /// temporaries (released by the caller at the end of the statement).  A `?`
    /// forks an early-return path.  Returns the continuing path (always one).
    fn linear(&mut self, e: &Expr, mut cfg: Cfg) -> Result<Cfg, String> {
        let items = {
            let mut l = Lin { tw: &*self, cfg: &cfg, items: vec![], err: None };
            l.visit_expr(e);
            if let Some(x) = l.err {
                return Err(x);
            }
            l.items
        };
        let mut tried = false;
        for it in &items {
            match it {
                LinItem::Try => tried = true,
                LinItem::Acq(..) | LinItem::Drop(_) if tried => {
                    return Err(format!("unsupported: a lock event after a `?` in one expression: {}", strip(e)));
                }
                LinItem::Acq(k, of, t) => {
                    cfg.path.push(LEv::Acq { kind: k, on_fail: of, tgt: t });
                    cfg.held.push(Held { name: None, tgt: t, temp: true });
                }
                LinItem::Drop(n) => {
                    let pos = cfg.held.iter().rposition(|h| h.name.as_deref() == Some(n.as_str())).unwrap();
                    let h = cfg.held.remove(pos);
                    cfg.path.push(LEv::Rel(h.tgt));
                }
            }
        }
        if tried {
            let mut ret = cfg.clone();
            ret.path.push(LEv::Assume("opaque", true));
            self.finish(ret);
            cfg.path.push(LEv::Assume("opaque", false));
        }
        Ok(cfg)
    }

    /// a block: its statements, then the guards it declared are released — except those its value hands out
    fn block(&mut self, stmts: &[Stmt], cfgs: Vec<Cfg>, want_moves: bool) -> Result<Vec<(Cfg, Moves)>, String> {
        let stmts: Vec<&Stmt> = stmts.iter().filter(|s| !is_hook_stmt(s)).collect();
        let mut out = vec![];
        for cfg in cfgs {
            let mark = cfg.held.len();
            let mut live = vec![cfg];
            let mut results: Vec<(Cfg, Moves)> = vec![];
            for (i, s) in stmts.iter().enumerate() {
                let last = i + 1 == stmts.len();
                let mut next = vec![];
                for c in live {
                    if last {
                        if let Stmt::Expr(e, None) = s {
                            results.extend(self.tail(e, c, mark, want_moves)?);
                            continue;
                        }
                    }
                    next.extend(self.stmt(s, c)?);
                }
                live = next;
            }
            for c in live {
                results.push((c, vec![]));
            }
            for (mut c, mv) in results {
                c.release_from(mark, false);
                out.push((c, mv));
            }
        }
        Ok(out)
    }

    /// the value expression of a block
    fn tail(&mut self, e: &Expr, mut cfg: Cfg, mark: usize, want_moves: bool) -> Result<Vec<(Cfg, Moves)>, String> {
        if want_moves {
            // `(a, b)`, `(a, Some(b))`, `(a, None)`, `a`: guards declared in this block leave it
            let slot = |x: &Expr, cfg: &Cfg| -> Option<usize> {
                let name = match x {
                    Expr::Path(p) => strip(p),
                    Expr::Call(c) if strip(&c.func) == "Some" && c.args.len() == 1 => strip(&c.args[0]),
                    _ => return None,
                };
                cfg.held.iter().enumerate().skip(mark).find(|(_, h)| h.name.as_deref() == Some(name.as_str())).map(|(i, _)| i)
            };
            let elems: Vec<&Expr> = match e {
                Expr::Tuple(t) => t.elems.iter().collect(),
                other => vec![other],
            };
            let slots: Vec<Option<usize>> = elems.iter().map(|x| slot(x, &cfg)).collect();
            if slots.iter().any(|s| s.is_some()) {
                for (x, s) in elems.iter().zip(&slots) {
                    if s.is_none() {
                        let (a, f) = self.relevant(x, &cfg);
                        if a || f {
                            return Err(format!("unsupported: a lock event next to a guard that leaves its block: {}", strip(e)));
                        }
                    }
                }
                let moves: Moves = slots.iter().map(|s| s.map(|i| cfg.held[i].tgt)).collect();
                let mut idx: Vec<usize> = slots.iter().flatten().copied().collect();
                idx.sort();
                idx.dedup();
                if idx.len() != slots.iter().flatten().count() {
                    return Err(format!("unsupported: one guard twice in a block value: {}", strip(e)));
                }
                for i in idx.into_iter().rev() {
                    cfg.held.remove(i);
                }
                return Ok(vec![(cfg, moves)]);
            }
            if let Some((k, of, t, recv)) = as_acq(e, self.helpers, &cfg) {
                let mut cfg = self.linear(recv, cfg)?;
                cfg.path.push(LEv::Acq { kind: k, on_fail: of, tgt: t });
                cfg.release_from(mark, true);
                return Ok(vec![(cfg, vec![Some(t)])]);
            }
        }
        let smark = cfg.held.len();
        let r = self.expr_stmt(e, cfg, want_moves)?;
        Ok(r.into_iter().map(|(mut c, mv)| {
            c.release_from(smark.min(c.held.len()), true);
            (c, mv)
        }).collect())
    }

    fn stmt(&mut self, s: &Stmt, mut cfg: Cfg) -> Result<Vec<Cfg>, String> {
        let smark = cfg.held.len();
        let mut out: Vec<Cfg> = match s {
            Stmt::Item(_) => vec![cfg],
            Stmt::Macro(m) => {
                if macro_mentions_lock(&m.mac.tokens, self.helpers) {
                    return Err(format!("unsupported: a macro invocation that mentions a lock: {}", strip(s)));
                }
                vec![cfg]
            }
            Stmt::Expr(e, _) => {
                let r = self.expr_stmt(e, cfg, false)?;
                r.into_iter().map(|(c, _)| c).collect()
            }
            Stmt::Local(l) => {
                if !l.attrs.is_empty() {
                    return Err(format!("unsupported: attribute on a `let`: {}", strip(s)));
                }
                let pat = match &l.pat {
                    Pat::Type(t) => &*t.pat,
                    p => p,
                };
                let names: Vec<String> = {
                    struct Ids(Vec<String>);
                    impl<'ast> Visit<'ast> for Ids {
                        fn visit_pat_ident(&mut self, i: &'ast syn::PatIdent) {
                            self.0.push(i.ident.to_string());
                            syn::visit::visit_pat_ident(self, i);
                        }
                    }
                    let mut v = Ids(vec![]);
                    v.visit_pat(pat);
                    v.0
                };
                let Some(init) = &l.init else {
                    for n in &names {
                        cfg.shadow(n);
                    }
                    return Ok(vec![cfg]);
                };
                let single = match pat {
                    Pat::Ident(i) if i.subpat.is_none() => Some(i.ident.to_string()),
                    _ => None,
                };
                // `let … else { diverges }`
                if let Some((_, els)) = &init.diverge {
                    let (a, f) = self.relevant(&init.expr, &cfg);
                    let (a2, _) = self.relevant(els, &cfg);
                    if a || a2 {
                        return Err(format!("unsupported: a lock acquisition in a `let … else`: {}", strip(s)));
                    }
                    let _ = f;
                    let mut c = self.linear(&init.expr, cfg)?;
                    let mut c_else = c.clone();
                    c_else.path.push(LEv::Assume("opaque", true));
                    let Expr::Block(b) = &**els else { return Err("unsupported: `let … else` without a block".into()) };
                    let r = self.block(&b.block.stmts, vec![c_else], false)?;
                    for (x, _) in r {
                        self.finish(x); // the else block diverges
                    }
                    c.path.push(LEv::Assume("opaque", false));
                    for n in &names {
                        c.shadow(n);
                    }
                    return Ok(vec![c]);
                }
                let e = &*init.expr;
                // a named guard
                if let Some((k, of, t, recv)) = as_acq(e, self.helpers, &cfg) {
                    let Some(name) = single else {
                        return Err(format!("unsupported: a guard bound by a pattern: {}", strip(s)));
                    };
                    let mut c = self.linear(recv, cfg)?;
                    c.path.push(LEv::Acq { kind: k, on_fail: of, tgt: t });
                    c.release_from(smark, true);
                    c.shadow(&name);
                    c.held.push(Held { name: Some(name), tgt: t, temp: false });
                    return Ok(vec![c]);
                }
                // a flag that names an address comparison
                if matches!(e, Expr::Binary(_) | Expr::Call(_) | Expr::Unary(_) | Expr::Paren(_)) {
                    if let (Some(name), Some(c)) = (&single, cond_of(e, &cfg)?) {
                        cfg.shadow(name);
                        cfg.flags.insert(name.clone(), c);
                        return Ok(vec![cfg]);
                    }
                }
                // a list created here
                if let Some(name) = &single {
                    if let Expr::Call(c) = e {
                        let f = strip(&c.func);
                        if ["Self::new", "ErasedList::new", "List::new", "Self::with_capacity", "ErasedList::with_capacity"].contains(&f.as_str()) {
                            let mut c2 = self.linear(e, cfg)?;
                            c2.release_from(smark, true);
                            c2.shadow(name);
                            c2.fresh.insert(name.clone());
                            return Ok(vec![c2]);
                        }
                    }
                }
                let r = self.expr_stmt(e, cfg, true)?;
                let mut out = vec![];
                for (mut c, mv) in r {
                    c.release_from(smark.min(c.held.len()), true);
                    for n in &names {
                        c.shadow(n);
                    }
                    if mv.iter().any(|m| m.is_some()) {
                        let targets: Vec<Option<String>> = match pat {
                            Pat::Ident(i) if i.subpat.is_none() => vec![Some(i.ident.to_string())],
                            Pat::Tuple(t) => t.elems.iter().map(|p| match p {
                                Pat::Ident(i) if i.subpat.is_none() => Some(i.ident.to_string()),
                                _ => None,
                            }).collect(),
                            _ => vec![],
                        };
                        if targets.len() != mv.len() {
                            return Err(format!("unsupported: guards leave a block into a pattern of another shape: {}", strip(s)));
                        }
                        for (n, m) in targets.iter().zip(&mv) {
                            if let Some(t) = m {
                                let Some(n) = n else {
                                    return Err(format!("unsupported: a guard bound by a nested pattern: {}", strip(s)));
                                };
                                c.held.push(Held { name: Some(n.clone()), tgt: t, temp: false });
                            }
                        }
                    }
                    out.push(c);
                }
                return Ok(out);
            }
        };
        for c in out.iter_mut() {
            let m = smark.min(c.held.len());
            c.release_from(m, true);
        }
        Ok(out)
    }

    /// an expression in statement (or block value / `let` initialiser) position
    fn expr_stmt(&mut self, e: &Expr, cfg: Cfg, want_moves: bool) -> Result<Vec<(Cfg, Moves)>, String> {
        let (acq, flow) = self.relevant(e, &cfg);
        if !acq && !flow {
            // nothing about locks inside (address conditions of a lock-free `if` included)
            return Ok(vec![(cfg, vec![])]);
        }
        match e {
            Expr::Paren(p) => self.expr_stmt(&p.expr, cfg, want_moves),
            Expr::If(i) => self.if_(i, cfg, want_moves),
            Expr::Match(m) => self.match_(m, cfg, want_moves),
            Expr::Block(b) => self.block(&b.block.stmts, vec![cfg], want_moves),
            Expr::Unsafe(u) => self.block(&u.block.stmts, vec![cfg], want_moves),
            Expr::ForLoop(f) => {
                let c = self.linear(&f.expr, cfg)?;
                self.loop_(&f.body, c)
            }
            Expr::While(w) => {
                let (a, fl) = self.relevant(&w.cond, &cfg);
                if a || fl {
                    return Err(format!("unsupported: a lock event in a `while` condition: {}", strip(&w.cond)));
                }
                self.loop_(&w.body, cfg)
            }
            Expr::Loop(l) => self.loop_(&l.body, cfg),
            Expr::Return(r) => {
                let c = match &r.expr {
                    Some(x) => self.linear(x, cfg)?,
                    None => cfg,
                };
                self.finish(c);
                Ok(vec![])
            }
            other => Ok(vec![(self.linear(other, cfg)?, vec![])]),
        }
    }

    fn if_(&mut self, i: &syn::ExprIf, cfg: Cfg, want_moves: bool) -> Result<Vec<(Cfg, Moves)>, String> {
        let (cond, pol, cfg) = match cond_of(&i.cond, &cfg)? {
            Some((c, p)) => (c, p, cfg),
            None => {
                let (a, f) = self.relevant(&i.cond, &cfg);
                if a || f {
                    if matches!(&*i.cond, Expr::Let(_)) {
                        return Err(format!("unsupported: a lock event in the scrutinee of an `if let`: {}", strip(&i.cond)));
                    }
                    // temporaries of a plain `if` condition die before the branches run
                    let m = cfg.held.len();
                    let mut c = self.linear(&i.cond, cfg)?;
                    c.release_from(m, true);
                    ("opaque", true, c)
                } else {
                    ("opaque", true, cfg)
                }
            }
        };
        let mut c1 = cfg.clone();
        c1.path.push(LEv::Assume(cond, pol));
        let mut out = self.block(&i.then_branch.stmts, vec![c1], want_moves)?;
        let mut c2 = cfg;
        c2.path.push(LEv::Assume(cond, !pol));
        match i.else_branch.as_ref().map(|(_, e)| &**e) {
            None => out.push((c2, vec![])),
            Some(Expr::Block(b)) => out.extend(self.block(&b.block.stmts, vec![c2], want_moves)?),
            Some(Expr::If(i2)) => out.extend(self.if_(i2, c2, want_moves)?),
            Some(other) => return Err(format!("unsupported else branch: {}", strip(other))),
        }
        Ok(out)
    }

    fn match_(&mut self, m: &syn::ExprMatch, cfg: Cfg, want_moves: bool) -> Result<Vec<(Cfg, Moves)>, String> {
        let smark = cfg.held.len();
        let mut cur = self.linear(&m.expr, cfg)?; // the scrutinee's temporaries live until the end of the `match`
        let mut out = vec![];
        let n = m.arms.len();
        if n == 0 {
            return Ok(vec![(cur, vec![])]);
        }
        for (k, arm) in m.arms.iter().enumerate() {
            if let Some((_, g)) = &arm.guard {
                let (a, f) = self.relevant(g, &cur);
                if a || f {
                    return Err(format!("unsupported: a lock event in a match guard: {}", strip(g)));
                }
            }
            let c_arm = if k + 1 < n {
                let mut c = cur.clone();
                c.path.push(LEv::Assume("opaque", true));
                cur.path.push(LEv::Assume("opaque", false));
                c
            } else {
                cur.clone()
            };
            let body = vec![Stmt::Expr((*arm.body).clone(), None)];
            out.extend(self.block(&body, vec![c_arm], want_moves)?);
        }
        for (c, _) in out.iter_mut() {
            let mk = smark.min(c.held.len());
            c.release_from(mk, true);
        }
        Ok(out)
    }

    /// a loop body runs zero or more times: expressible as finitely many paths only when
    /// the body acquires nothing (its early returns then look the same in every iteration)
    fn loop_(&mut self, body: &syn::Block, cfg: Cfg) -> Result<Vec<(Cfg, Moves)>, String> {
        let (a, _) = self.relevant_block(&body.stmts, &cfg);
        if a {
            return Err("unsupported: a lock acquisition inside a loop body".into());
        }
        let mut c_body = cfg.clone();
        c_body.path.push(LEv::Assume("opaque", true));
        let mut out = self.block(&body.stmts, vec![c_body], false)?;
        let mut c_skip = cfg;
        c_skip.path.push(LEv::Assume("opaque", false));
        out.push((c_skip, vec![]));
        Ok(out.into_iter().map(|(c, _)| (c, vec![])).collect())
    }
}

/// every control-flow path of a body, as lock events (with the branch decisions taken)
fn lock_paths(block: &syn::Block, helpers: &Helpers) -> Result<Vec<Vec<LEv>>, String> {
    let mut tw = TW { helpers, done: vec![] };
    let live = tw.block(&block.stmts, vec![Cfg::default()], false)?;
    for (c, _) in live {
        tw.finish(c);
    }
    Ok(tw.done.into_iter().map(|c| c.path).collect())
}

/// the paths of one body share prefixes up to the branch decisions: fold them back into the tree
fn build_tree(paths: Vec<&[LEv]>) -> Result<LTree, String> {
    if paths.is_empty() {
        return Err("a branch without any path".into());
    }
    if paths.iter().all(|p| p.is_empty()) {
        return Ok(LTree::Done);
    }
    if paths.iter().any(|p| p.is_empty()) {
        return Err("paths of one body do not form a tree (one ends where another goes on)".into());
    }
    match &paths[0][0] {
        LEv::Assume(c, _) => {
            let mut t = vec![];
            let mut f = vec![];
            for p in &paths {
                match &p[0] {
                    LEv::Assume(c2, true) if c2 == c => t.push(&p[1..]),
                    LEv::Assume(c2, false) if c2 == c => f.push(&p[1..]),
                    _ => return Err("paths of one body do not form a tree (different branch conditions)".into()),
                }
            }
            Ok(LTree::Branch(c, Box::new(build_tree(t)?), Box::new(build_tree(f)?)))
        }
        ev => {
            if paths.iter().any(|p| &p[0] != ev) {
                return Err("paths of one body do not form a tree (different events without a branch)".into());
            }
            Ok(LTree::Ev(ev.clone(), Box::new(build_tree(paths.iter().map(|p| &p[1..]).collect())?)))
        }
    }
}

/// drop branch decisions that make no difference to the lock events (both sides equal)
fn prune(t: LTree) -> LTree {
    match t {
        LTree::Done => LTree::Done,
        LTree::Ev(e, r) => LTree::Ev(e, Box::new(prune(*r))),
        LTree::Branch(c, a, b) => {
            let (a, b) = (prune(*a), prune(*b));
            if c == "opaque" && lean_tree(&a) == lean_tree(&b) {
                a
            } else {
                LTree::Branch(c, Box::new(a), Box::new(b))
            }
        }
    }
}

fn has_acq(t: &LTree) -> bool {
    match t {
        LTree::Done => false,
        LTree::Ev(LEv::Acq { .. }, _) => true,
        LTree::Ev(_, r) => has_acq(r),
        LTree::Branch(_, a, b) => has_acq(a) || has_acq(b),
    }
}

fn lean_tree(t: &LTree) -> String {
    match t {
        LTree::Done => ".done".into(),
        LTree::Ev(LEv::Acq { kind, on_fail, tgt }, r) => format!("(.acq .{kind} .{on_fail} .{tgt} {})", lean_tree(r)),
        LTree::Ev(LEv::Rel(t), r) => format!("(.rel .{t} {})", lean_tree(r)),
        LTree::Ev(LEv::Assume(..), _) => unreachable!("assume events become branch nodes"),
        LTree::Branch(c, a, b) => format!("(.branch .{c} {} {})", lean_tree(a), lean_tree(b)),
    }
}

/// does the body mention a lock at all (cheap pre-filter: bodies without one have no events)
fn mentions_lock(block: &syn::Block, helpers: &Helpers) -> bool {
    macro_mentions_lock(&block.to_token_stream(), helpers)
}

fn lock_tree(block: &syn::Block, helpers: &Helpers) -> Result<Option<LTree>, String> {
    if !mentions_lock(block, helpers) {
        return Ok(None);
    }
    let paths = lock_paths(block, helpers)?;
    let t = prune(build_tree(paths.iter().map(|p| p.as_slice()).collect())?);
    Ok(if has_acq(&t) { Some(t) } else { None })
}

struct ListFns {
    path: Vec<String>,
    cur: Option<String>,
    out: Vec<(String, String, syn::Block, String)>, // (ctor, owner, body, return type text)
}
/// `#[cfg(feature = "verif-hooks")]` on an item: verification hooks are not part of the shipped code
fn hook_attrs(attrs: &[syn::Attribute]) -> bool {
    attrs.iter().any(|a| strip(a) == "#[cfg(feature=\"verif-hooks\")]")
}

impl<'ast> Visit<'ast> for ListFns {
    fn visit_item_mod(&mut self, m: &'ast syn::ItemMod) {
        if m.ident == "tests" || hook_attrs(&m.attrs) {
            return;
        }
        self.path.push(m.ident.to_string());
        syn::visit::visit_item_mod(self, m);
        self.path.pop();
    }
    fn visit_item_impl(&mut self, i: &'ast syn::ItemImpl) {
        if hook_attrs(&i.attrs) {
            return;
        }
        let ty = strip(&i.self_ty);
        let ty: String = ty.split('<').next().unwrap_or("").to_string();
        let label = match &i.trait_ {
            Some((_, p, _)) => format!("{}_for_{}", p.segments.last().map(|s| s.ident.to_string()).unwrap_or_default(), ty),
            None => ty,
        };
        let old = self.cur.replace(label);
        syn::visit::visit_item_impl(self, i);
        self.cur = old;
    }
    fn visit_impl_item_fn(&mut self, f: &'ast syn::ImplItemFn) {
        if hook_attrs(&f.attrs) {
            return;
        }
        let owner = self.cur.clone().unwrap_or_default();
        let mut parts = self.path.clone();
        parts.push(owner.clone());
        parts.push(f.sig.ident.to_string());
        self.out.push((ctor_name(&parts[..parts.len() - 1].join("_"), &f.sig.ident.to_string()), owner, f.block.clone(), strip(&f.sig.output)));
        syn::visit::visit_impl_item_fn(self, f);
    }
    fn visit_item_fn(&mut self, f: &'ast syn::ItemFn) {
        if hook_attrs(&f.attrs) {
            return;
        }
        let mut parts = self.path.clone();
        if let Some(c) = &self.cur {
            parts.push(c.clone());
        }
        let owner = if parts.is_empty() { "free".to_string() } else { parts.join("_") };
        self.out.push((ctor_name(&owner, &f.sig.ident.to_string()), owner, (*f.block).clone(), strip(&f.sig.output)));
        syn::visit::visit_item_fn(self, f);
    }
}

pub fn c10locks(repo: &Path) -> Result<String, String> {
    let list = find::parse(repo, "src/value/list.rs")?;
    let basic = find::parse(repo, "src/runtime/basic.rs")?;
    let mut lf = ListFns { path: vec![], cur: None, out: vec![] };
    lf.visit_file(&list);
    if lf.out.len() < 40 {
        return Err(format!("only {} functions found in src/value/list.rs", lf.out.len()));
    }
    let scanned_list_fns = lf.out.len();
    // `StringBuf` (src/value/string_buf.rs) is the other built-in type behind an `Arc<Mutex<..>>`: its
    // methods and its `==` run below compiled code too.  The host cannot name the type (it is not
    // exported), so a StringBuf never crosses threads: its functions are marked `threadLocal`
    // (what has to hold for them is that a call never waits for itself: `a == a`).
    let string_buf = find::parse(repo, "src/value/string_buf.rs")?;
    lf.visit_file(&string_buf);
    let buf_owner = |owner: &str| owner == "StringBuf" || owner.ends_with("_for_StringBuf");
    // read, not assumed: src/lib.rs (the crate's public surface; `mod value` is private) does not mention
    // the type.  If it ever does, the functions count as reached by several threads (`reachedByBuiltins`).
    let buf_exported = std::fs::read_to_string(repo.join("src/lib.rs")).map_err(|e| format!("src/lib.rs: {e}"))?.contains("StringBuf");
    // helpers: functions that hand out a guard (their single acquisition is charged to the caller)
    let none = BTreeMap::new();
    let mut helpers: BTreeMap<String, (&'static str, &'static str)> = BTreeMap::new();
    for (ctor, _owner, body, ret) in &lf.out {
        if ret.contains("MutexGuard") {
            let paths = lock_paths(body, &none).map_err(|e| format!("guard-returning function {ctor}: {e}"))?;
            if paths.len() != 1 {
                return Err(format!("guard-returning function {ctor}: expected straight-line code, found {} paths", paths.len()));
            }
            let acqs: Vec<&LEv> = paths[0].iter().filter(|e| matches!(e, LEv::Acq { .. })).collect();
            match acqs.as_slice() {
                [LEv::Acq { kind, on_fail, .. }] => {
                    helpers.insert(ctor.clone(), (*kind, *on_fail));
                }
                other => return Err(format!("guard-returning function {ctor}: expected exactly one acquisition, found {}", other.len())),
            }
        }
    }
    // re-key helpers by method name
    let mut by_method: BTreeMap<String, (&'static str, &'static str)> = BTreeMap::new();
    {
        struct Names(Vec<(String, String)>);
        impl<'ast> Visit<'ast> for Names {
            fn visit_item_mod(&mut self, m: &'ast syn::ItemMod) {
                if m.ident != "tests" && !hook_attrs(&m.attrs) {
                    syn::visit::visit_item_mod(self, m);
                }
            }
            fn visit_item_impl(&mut self, i: &'ast syn::ItemImpl) {
                if !hook_attrs(&i.attrs) {
                    syn::visit::visit_item_impl(self, i);
                }
            }
            fn visit_impl_item_fn(&mut self, f: &'ast syn::ImplItemFn) {
                if strip(&f.sig.output).contains("MutexGuard") {
                    self.0.push((f.sig.ident.to_string(), strip(&f.sig.output)));
                }
            }
            fn visit_item_fn(&mut self, f: &'ast syn::ItemFn) {
                if strip(&f.sig.output).contains("MutexGuard") {
                    self.0.push((f.sig.ident.to_string(), strip(&f.sig.output)));
                }
            }
        }
        let mut n = Names(vec![]);
        n.visit_file(&list);
        if n.0.len() != helpers.len() {
            return Err("guard-returning helpers: name table out of step".into());
        }
        for ((m, _), (_, v)) in n.0.iter().zip(helpers.iter()) {
            if by_method.insert(m.clone(), *v).is_some() {
                return Err(format!("two guard-returning helpers are named {m}"));
            }
        }
    }
    let mut rows: Vec<(String, String, LTree)> = vec![];
    let mut seen = HashSet::new();
    for (ctor, owner, body, ret) in &lf.out {
        if ret.contains("MutexGuard") {
            continue; // charged to its callers
        }
        let Some(ev) = lock_tree(body, &by_method).map_err(|e| format!("{ctor}: {e}"))? else { continue };
        let mut c = ctor.clone();
        while !seen.insert(c.clone()) {
            c.push('\'');
        }
        rows.push((c, owner.clone(), ev));
    }
    for f in library_fns(&basic)? {
        let Some(ev) = lock_tree(&f.body, &by_method).map_err(|e| format!("binding {}.{}: {e}", f.impl_ty, f.name))? else { continue };
        let mut c = format!("binding_{}", ctor_name(&f.impl_ty, &f.name));
        while !seen.insert(c.clone()) {
            c.push('\'');
        }
        rows.push((c, "binding".into(), ev));
    }
    if rows.len() < 10 {
        return Err(format!("only {} functions with lock events found (list.rs restructured?)", rows.len()));
    }
    // which functions compiled code reaches: everything on the erased list and the FFI shims, plus the
    // host-side `List<T>` methods that a binding body calls by name (`to_vec` in `join`)
    let mut called: HashSet<String> = HashSet::new();
    for f in library_fns(&basic)?.iter().filter(|f| f.impl_ty == "ErasedList") {
        struct Calls<'a>(&'a mut HashSet<String>);
        impl<'ast> Visit<'ast> for Calls<'_> {
            fn visit_expr_method_call(&mut self, m: &'ast syn::ExprMethodCall) {
                self.0.insert(m.method.to_string());
                syn::visit::visit_expr_method_call(self, m);
            }
        }
        Calls(&mut called).visit_block(&f.body);
    }
    let mut out = header("C10Locks", &["src/value/list.rs", "src/value/string_buf.rs", "src/runtime/basic.rs"])
        .replace("import RotoV.Model.Clif\n", "import RotoV.Model.Clif\nimport RotoV.Model.MutexPanic\n");
    out.push_str("open RotoV.MutexPanic\n\n");
    out.push_str(&format!("/-- functions scanned in src/value/list.rs (outside `mod tests`) -/\ndef scannedListFns : Nat := {}\n\n", scanned_list_fns));
    out.push_str(&format!("/-- guard-returning helpers resolved at their call sites -/\ndef guardHelpers : List String := [{}]\n\n",
        by_method.keys().map(|k| format!("\"{k}\"")).collect::<Vec<_>>().join(", ")));
    out.push_str("inductive LockFn where\n");
    for (c, _, _) in &rows {
        out.push_str(&format!("  | {c}\n"));
    }
    out.push_str("  deriving DecidableEq, Repr\n\n");
    out.push_str(&format!("def LockFn.all : List LockFn := [{}]\n\n", rows.iter().map(|r| format!(".{}", r.0)).collect::<Vec<_>>().join(", ")));
    out.push_str("/-- the lock events of each function as written, along its control flow -/\ndef LockFn.tree : LockFn → Tree\n");
    for (c, _, ev) in &rows {
        out.push_str(&format!("  | .{c} => {}\n", lean_tree(ev)));
    }
    out.push_str("\n/-- reached by compiled code: methods of the erased list, the FFI shims, binding bodies, and\n    the host-side `List<T>` methods a list binding calls by name -/\ndef LockFn.reachedByBuiltins : LockFn → Bool\n");
    for (c, owner, _) in &rows {
        let base = c.trim_end_matches('\'');
        let is_erased = owner == "ErasedList" || owner.ends_with("_for_ErasedList");
        let is_ffi = owner.starts_with("ffi");
        let is_binding = owner == "binding";
        let host_called = !is_erased && !is_binding && owner.contains("List") && !owner.contains("RawList")
            && called.iter().any(|m| base.ends_with(&format!("_{m}")));
        out.push_str(&format!("  | .{c} => {}\n", is_erased || is_ffi || is_binding || host_called || (buf_owner(owner) && buf_exported)));
    }
    out.push_str("\n/-- functions of `StringBuf` (src/value/string_buf.rs): reached by compiled code (methods, `==`), but the\n    type is not exported to the host, so a value never crosses threads -/\ndef LockFn.threadLocal : LockFn → Bool\n");
    for (c, owner, _) in &rows {
        out.push_str(&format!("  | .{c} => {}\n", buf_owner(owner) && !buf_exported));
    }
    out.push('\n');
    out.push_str(&footer("C10Locks"));
    Ok(out)
}
