//! Translator targets owned by property C16.
//!
//! `c16facts` → `Generated/C16Facts.lean`: the *lock-scope* facts of
//! `src/value/list.rs` that decide C16 (DESIGN.md §4 C16):
//!  * `List::get` and `ffi::list_get`: does the clone of the element happen
//!    while the guard under which the pointer was looked up is still alive?
//!  * every other `ErasedList` method: is it one critical section — a
//!    temporary guard living for exactly the statement that calls the
//!    `RawList` method, or a `let`-bound guard that lives to the end of the
//!    function with every access going through it?
//!  * the lock / read / unlock sequence of `concat` and `==`.
//! Every function body is reduced to a *lock trace* (lock acquisitions with
//! how the guard is bound, explicit `drop(guard)`s, calls of `RawList`
//! methods with their receiver, element clones). A trace that is not one of
//! the recognised shapes is an extraction failure, never a default.
//! Statements under `#[cfg(feature = "verif-hooks")]` are skipped.
#[allow(unused_imports)]
use super::{Gen, Target};
use crate::find;
use quote::ToTokens;
use std::path::Path;
use syn::visit::Visit;

pub const TARGETS: &[Target] = &[("c16facts", "C16Facts", c16facts as Gen)];

fn norm<T: ToTokens>(t: &T) -> String {
    t.to_token_stream().to_string().replace(' ', "")
}

fn is_hook_attr(attrs: &[syn::Attribute]) -> bool {
    attrs.iter().any(|a| a.path().is_ident("cfg") && norm(&a.meta).contains("verif-hooks"))
}

#[derive(Clone, Debug, PartialEq)]
enum Tok {
    /// `<recv>.lock()`; `bound` = name of the `let` that holds the guard
    /// (`None`: a temporary of the enclosing statement), `scope` = nesting of
    /// blocks at the binding
    Lock { recv: String, bound: Option<String>, scope: Vec<usize> },
    /// `drop(<name>)`
    Drop(String),
    /// `<recv>.<method>(…)` for the RawList / ErasedList methods we track
    Call { recv: String, method: String, scope: Vec<usize> },
    /// the element is cloned: `.clone()` on the looked-up value, `clone_fn`, memcpy
    CloneElem { scope: Vec<usize> },
    /// the element buffer is reached directly: `<base>.ptr` (only produced by `trace_buf`)
    Buf { base: String, scope: Vec<usize> },
}

const TRACKED: &[&str] = &[
    "get", "push", "extend", "contains", "contains_owned", "index", "index_owned", "swap", "len",
    "capacity", "is_empty", "concat",
];

struct Tracer {
    toks: Vec<Tok>,
    scope: Vec<usize>,
    next_block: usize,
    /// name of the `let` whose initialiser is being visited, if that
    /// initialiser is exactly `<recv>.lock().unwrap()`
    binding: Option<String>,
    /// also record `<base>.ptr`
    with_buf: bool,
}

fn lock_unwrap_recv(e: &syn::Expr) -> Option<&syn::Expr> {
    // <recv>.lock().unwrap()
    if let syn::Expr::MethodCall(u) = e {
        if u.method == "unwrap" {
            if let syn::Expr::MethodCall(l) = &*u.receiver {
                if l.method == "lock" {
                    return Some(&l.receiver);
                }
            }
        }
    }
    None
}

impl<'ast> Visit<'ast> for Tracer {
    fn visit_block(&mut self, b: &'ast syn::Block) {
        self.next_block += 1;
        self.scope.push(self.next_block);
        syn::visit::visit_block(self, b);
        self.scope.pop();
    }
    fn visit_stmt(&mut self, s: &'ast syn::Stmt) {
        match s {
            syn::Stmt::Local(l) if is_hook_attr(&l.attrs) => {}
            syn::Stmt::Expr(e, _) if expr_is_hook(e) => {}
            _ => syn::visit::visit_stmt(self, s),
        }
    }
    fn visit_local(&mut self, l: &'ast syn::Local) {
        let name = match &l.pat {
            syn::Pat::Ident(i) => Some(i.ident.to_string()),
            _ => None,
        };
        if let (Some(n), Some(init)) = (name, &l.init) {
            if lock_unwrap_recv(&init.expr).is_some() {
                self.binding = Some(n);
                syn::visit::visit_local(self, l);
                self.binding = None;
                return;
            }
        }
        syn::visit::visit_local(self, l);
    }
    fn visit_expr_method_call(&mut self, m: &'ast syn::ExprMethodCall) {
        // receiver and arguments first (source order of evaluation)
        syn::visit::visit_expr_method_call(self, m);
        let recv = norm(&m.receiver);
        let method = m.method.to_string();
        if method == "lock" {
            self.toks.push(Tok::Lock {
                recv,
                bound: self.binding.clone(),
                scope: self.scope.clone(),
            });
        } else if method == "clone" && !recv.contains("vtable") && !recv.ends_with(".0") && recv != "self" {
            // `transformed.clone()` / `elem.clone()`: a clone of an element
            self.toks.push(Tok::CloneElem { scope: self.scope.clone() });
        } else if TRACKED.contains(&method.as_str()) {
            self.toks.push(Tok::Call { recv, method, scope: self.scope.clone() });
        }
    }
    fn visit_expr_field(&mut self, f: &'ast syn::ExprField) {
        syn::visit::visit_expr_field(self, f);
        if self.with_buf {
            if let syn::Member::Named(m) = &f.member {
                if m == "ptr" {
                    self.toks.push(Tok::Buf { base: norm(&f.base), scope: self.scope.clone() });
                }
            }
        }
    }
    fn visit_expr_call(&mut self, c: &'ast syn::ExprCall) {
        syn::visit::visit_expr_call(self, c);
        let f = norm(&c.func);
        if f == "drop" && c.args.len() == 1 {
            self.toks.push(Tok::Drop(norm(&c.args[0])));
        } else if f == "(clone_fn)" || f == "clone_fn" || f.ends_with("copy_nonoverlapping") {
            self.toks.push(Tok::CloneElem { scope: self.scope.clone() });
        }
    }
}

fn expr_is_hook(e: &syn::Expr) -> bool {
    match e {
        syn::Expr::Call(c) => is_hook_attr(&c.attrs),
        syn::Expr::MethodCall(c) => is_hook_attr(&c.attrs),
        syn::Expr::Macro(c) => is_hook_attr(&c.attrs),
        syn::Expr::Block(c) => is_hook_attr(&c.attrs),
        _ => false,
    }
}

fn trace(block: &syn::Block) -> Vec<Tok> {
    let mut t = Tracer { toks: vec![], scope: vec![], next_block: 0, binding: None, with_buf: false };
    t.visit_block(block);
    t.toks
}

/// the lock trace with the direct buffer accesses (`<base>.ptr`) in it
fn trace_buf(block: &syn::Block) -> Vec<Tok> {
    let mut t = Tracer { toks: vec![], scope: vec![], next_block: 0, binding: None, with_buf: true };
    t.visit_block(block);
    t.toks
}

// ---------------------------------------------------------------- every function of the file

/// what one function of `list.rs` (production code) does with the lock and the buffer
struct FnInfo {
    /// `List::get`, `PartialEq for List::eq`, `ffi::list_get`, …
    name: String,
    /// receivers of `.lock()` / `.read()` / `.write()` / `.try_*()` on a list's lock (`….0`)
    locks: Vec<String>,
    /// direct accesses to the element buffer: `<base>.ptr`, `from_raw_parts`
    bufs: Vec<String>,
    /// the return type mentions a reference or a raw pointer
    ret_ptr: bool,
}

fn is_test_attr(attrs: &[syn::Attribute]) -> bool {
    attrs.iter().any(|a| a.path().is_ident("cfg") && norm(&a.meta).contains("test"))
}

struct FnScan {
    locks: Vec<String>,
    bufs: Vec<String>,
}

impl<'ast> Visit<'ast> for FnScan {
    fn visit_stmt(&mut self, s: &'ast syn::Stmt) {
        match s {
            syn::Stmt::Local(l) if is_hook_attr(&l.attrs) => {}
            syn::Stmt::Expr(e, _) if expr_is_hook(e) => {}
            _ => syn::visit::visit_stmt(self, s),
        }
    }
    fn visit_expr_method_call(&mut self, m: &'ast syn::ExprMethodCall) {
        syn::visit::visit_expr_method_call(self, m);
        let name = m.method.to_string();
        if ["lock", "read", "write", "try_lock", "try_read", "try_write"].contains(&name.as_str()) {
            let recv = norm(&m.receiver);
            if recv.ends_with(".0") {
                self.locks.push(format!("{recv}.{name}()"));
            }
        }
    }
    fn visit_expr_field(&mut self, f: &'ast syn::ExprField) {
        syn::visit::visit_expr_field(self, f);
        if let syn::Member::Named(m) = &f.member {
            if m == "ptr" {
                self.bufs.push(format!("{}.ptr", norm(&f.base)));
            }
        }
    }
    fn visit_expr_call(&mut self, c: &'ast syn::ExprCall) {
        syn::visit::visit_expr_call(self, c);
        let f = norm(&c.func);
        if f.contains("from_raw_parts") {
            self.bufs.push("from_raw_parts".into());
        }
    }
}

/// every function above the lock: module `ffi`, the impls of `List`,
/// `IntoIter`, `ErasedList` (inherent and trait impls). `RawList` and the
/// allocation helpers live *below* the lock (they are only reachable through
/// a guard) and are not listed; `#[cfg(feature = "verif-hooks")]` and
/// `#[cfg(test)]` items are skipped.
struct Enumerator {
    label: Vec<String>,
    out: Vec<FnInfo>,
}

impl Enumerator {
    fn add(&mut self, sig: &syn::Signature, block: &syn::Block) {
        let mut sc = FnScan { locks: vec![], bufs: vec![] };
        sc.visit_block(block);
        let ret = match &sig.output {
            syn::ReturnType::Default => String::new(),
            syn::ReturnType::Type(_, t) => norm(&**t),
        };
        let ret_ptr = ret.contains('&') || ret.contains("*const") || ret.contains("*mut") || ret.contains("NonNull");
        let prefix = self.label.last().cloned().unwrap_or_default();
        self.out.push(FnInfo {
            name: if prefix.is_empty() { sig.ident.to_string() } else { format!("{prefix}::{}", sig.ident) },
            locks: sc.locks,
            bufs: sc.bufs,
            ret_ptr,
        });
    }
}

fn strip_generics(t: &str) -> String {
    t.split('<').next().unwrap_or(t).to_string()
}

impl<'ast> Visit<'ast> for Enumerator {
    fn visit_item_mod(&mut self, m: &'ast syn::ItemMod) {
        if is_hook_attr(&m.attrs) || is_test_attr(&m.attrs) {
            return;
        }
        // `boundary` is only a namespace; `ffi` labels its free functions
        let name = m.ident.to_string();
        self.label.push(if name == "ffi" { "ffi".into() } else { String::new() });
        syn::visit::visit_item_mod(self, m);
        self.label.pop();
    }
    fn visit_item_impl(&mut self, i: &'ast syn::ItemImpl) {
        if is_hook_attr(&i.attrs) || is_test_attr(&i.attrs) {
            return;
        }
        let ty = strip_generics(&norm(&*i.self_ty));
        if ty == "RawList" || ty == "DropGuard" {
            return;
        }
        let label = match &i.trait_ {
            Some((_, p, _)) => format!("{} for {ty}", strip_generics(&norm(p))),
            None => ty,
        };
        self.label.push(label);
        syn::visit::visit_item_impl(self, i);
        self.label.pop();
    }
    fn visit_impl_item_fn(&mut self, f: &'ast syn::ImplItemFn) {
        if is_hook_attr(&f.attrs) || is_test_attr(&f.attrs) {
            return;
        }
        self.add(&f.sig, &f.block);
        syn::visit::visit_impl_item_fn(self, f);
    }
    fn visit_item_fn(&mut self, f: &'ast syn::ItemFn) {
        if is_hook_attr(&f.attrs) || is_test_attr(&f.attrs) {
            return;
        }
        // free functions: only those of module `ffi` are above the lock
        if self.label.last().map(|l| l == "ffi").unwrap_or(false) {
            self.add(&f.sig, &f.block);
        }
        syn::visit::visit_item_fn(self, f);
    }
}

/// the functions whose steps the model has (`Op` of Model/ListConc, through
/// the shapes checked below)
const MODELLED: &[&str] = &[
    "ffi::list_get",
    "List::get",
    "List::to_vec",
    "PartialEq for List::eq",
    "PartialEq for ErasedList::eq",
    "ErasedList::push",
    "ErasedList::get",
    "ErasedList::concat",
    "ErasedList::contains",
    "ErasedList::contains_owned",
    "ErasedList::index",
    "ErasedList::index_owned",
    "ErasedList::swap",
    "ErasedList::len",
    "ErasedList::capacity",
    "ErasedList::is_empty",
];

/// `List::to_vec`: one `let`-bound guard on `self.inner.0`, the buffer reached
/// only through that guard, every element cloned inside the guard's block,
/// the guard never dropped by hand, nothing but an owned value returned
fn to_vec_under_guard(b: &find::FnBody) -> (bool, String) {
    let toks = trace_buf(&b.block);
    let locks: Vec<(&String, &Option<String>, &Vec<usize>)> = toks
        .iter()
        .filter_map(|t| if let Tok::Lock { recv, bound, scope } = t { Some((recv, bound, scope)) } else { None })
        .collect();
    let why = |w: &str| (false, format!("{w}; lock trace: {}", show(&toks)));
    let [(recv, Some(g), gscope)] = locks.as_slice() else {
        return why("expected exactly one let-bound guard");
    };
    if recv.as_str() != "self.inner.0" {
        return why("the lock taken is not self.inner.0");
    }
    let bufs: Vec<&String> = toks.iter().filter_map(|t| if let Tok::Buf { base, .. } = t { Some(base) } else { None }).collect();
    if bufs.is_empty() || bufs.iter().any(|b| *b != g) {
        return why("the buffer is not reached through the guard");
    }
    let clones: Vec<&Vec<usize>> =
        toks.iter().filter_map(|t| if let Tok::CloneElem { scope } = t { Some(scope) } else { None }).collect();
    if clones.is_empty() {
        return why("no element clone found");
    }
    if clones.iter().any(|c| !(c.len() >= gscope.len() && c[..gscope.len()] == gscope[..])) {
        return why("an element is cloned outside the guard's block");
    }
    if toks.iter().any(|t| matches!(t, Tok::Drop(n) if n == g)) {
        return why("the guard is dropped by hand");
    }
    let li = toks.iter().position(|t| matches!(t, Tok::Lock { .. })).unwrap();
    if toks[..li].iter().any(|t| matches!(t, Tok::Buf { .. } | Tok::CloneElem { .. })) {
        return why("the buffer is touched before the lock is taken");
    }
    (true, show(&toks))
}

/// the typed `==`: both slices are built from the two guards bound by
/// `let (x, y) = if … { lock; lock; (x, y) } else { … }` and nothing is
/// dropped by hand (the guards live to the end of the function, where the
/// comparison has been done)
fn typed_eq_walk_under_guards(b: &find::FnBody) -> (bool, String) {
    let toks = trace_buf(&b.block);
    let why = |w: &str| (false, format!("{w}; lock trace: {}", show(&toks)));
    let mut names: Option<(String, String)> = None;
    for s in &b.block.stmts {
        if let syn::Stmt::Local(l) = s {
            if let (syn::Pat::Tuple(t), Some(init)) = (&l.pat, &l.init) {
                if let (syn::Expr::If(_), [syn::Pat::Ident(x), syn::Pat::Ident(y)]) =
                    (&*init.expr, t.elems.iter().collect::<Vec<_>>().as_slice())
                {
                    names = Some((x.ident.to_string(), y.ident.to_string()));
                }
            }
        }
    }
    let Some((x, y)) = names else {
        return why("no `let (a, b) = if … { lock; lock; (a, b) } else { … }` holding the two guards");
    };
    let bufs: Vec<&String> = toks.iter().filter_map(|t| if let Tok::Buf { base, .. } = t { Some(base) } else { None }).collect();
    if !bufs.iter().any(|b| **b == x) || !bufs.iter().any(|b| **b == y) || bufs.iter().any(|b| **b != x && **b != y) {
        return why("the two slices are not built from the two guards");
    }
    if toks.iter().any(|t| matches!(t, Tok::Drop(_))) {
        return why("a guard is dropped by hand");
    }
    (true, show(&toks))
}

fn show(toks: &[Tok]) -> String {
    toks.iter()
        .map(|t| match t {
            Tok::Lock { recv, bound: Some(b), .. } => format!("let {b}=lock({recv})"),
            Tok::Lock { recv, bound: None, .. } => format!("tmp=lock({recv})"),
            Tok::Drop(n) => format!("drop({n})"),
            Tok::Call { recv, method, .. } => format!("{recv}.{method}"),
            Tok::CloneElem { .. } => "clone-element".into(),
            Tok::Buf { base, .. } => format!("{base}.ptr"),
        })
        .collect::<Vec<_>>()
        .join("; ")
}

/// Is the element cloned while the guard of the lookup is alive?
/// `erased_get_is_temp`: `ErasedList::get` is the one-statement temporary-guard shape.
fn clone_under_guard(name: &str, toks: &[Tok], handle: &[&str], erased_get_is_temp: bool) -> Result<bool, String> {
    let bad = |why: &str| Err(format!("{name}: {why}; lock trace: {}", show(toks)));
    let lookups: Vec<usize> = toks
        .iter()
        .enumerate()
        .filter(|(_, t)| matches!(t, Tok::Call { method, .. } if method == "get"))
        .map(|(i, _)| i)
        .collect();
    if lookups.len() != 1 {
        return bad("expected exactly one element lookup (`.get(idx)`)");
    }
    let li = lookups[0];
    let clones: Vec<(usize, &Vec<usize>)> = toks
        .iter()
        .enumerate()
        .filter_map(|(i, t)| if let Tok::CloneElem { scope } = t { Some((i, scope)) } else { None })
        .collect();
    if clones.is_empty() {
        return bad("no element clone found");
    }
    if clones.iter().any(|(i, _)| *i < li) {
        return bad("an element clone precedes the lookup");
    }
    let Tok::Call { recv, .. } = &toks[li] else { unreachable!() };
    if handle.contains(&recv.as_str()) {
        // the lookup goes through ErasedList::get: its guard is gone when it returns
        if !erased_get_is_temp {
            return bad("lookup through ErasedList::get, whose shape is not the temporary-guard one");
        }
        return Ok(false);
    }
    // the lookup goes through a temporary guard: it is gone at the end of the
    // lookup's statement, before anything is cloned
    if recv.ends_with(".0.lock().unwrap()") {
        return Ok(false);
    }
    // the lookup goes through a guard bound by `let`
    let guard = toks.iter().enumerate().find_map(|(i, t)| match t {
        Tok::Lock { bound: Some(b), scope, .. } if b == recv && i < li => Some((i, scope.clone())),
        _ => None,
    });
    let Some((_, gscope)) = guard else {
        return bad("the lookup's receiver is neither the list handle nor a `let`-bound guard");
    };
    for (ci, cscope) in &clones {
        // the guard's block must enclose the clone …
        if !(cscope.len() >= gscope.len() && cscope[..gscope.len()] == gscope[..]) {
            return Ok(false);
        }
        // … and the guard must not be dropped explicitly before it
        if toks[li..*ci].iter().any(|t| matches!(t, Tok::Drop(n) if n == recv)) {
            return Ok(false);
        }
    }
    // no second lock between lookup and clone (that would be a different critical section
    // only if the first guard were gone, which we just excluded; a nested lock of the same
    // mutex would self-deadlock — not a recognised shape)
    if toks[li..clones[0].0].iter().any(|t| matches!(t, Tok::Lock { .. })) {
        return bad("a lock is taken between the lookup and the clone while the lookup's guard is alive");
    }
    Ok(true)
}

#[derive(PartialEq, Clone, Copy)]
enum Shape {
    Temp,
    Let,
}

/// one critical section on `self.0`, every tracked call through the guard
fn single_section(name: &str, toks: &[Tok], method: &str) -> Result<Shape, String> {
    let bad = |why: &str| Err(format!("{name}: {why}; lock trace: {}", show(toks)));
    let locks: Vec<&Tok> = toks.iter().filter(|t| matches!(t, Tok::Lock { .. })).collect();
    if locks.len() != 1 {
        return bad("expected exactly one lock acquisition");
    }
    let Tok::Lock { recv, bound, .. } = locks[0] else { unreachable!() };
    if recv != "self.0" {
        return bad("the lock taken is not self.0");
    }
    if !matches!(toks.first(), Some(Tok::Lock { .. })) {
        return bad("something is accessed before the lock is taken");
    }
    // an explicit drop of the guard is fine once the RawList call is done
    let call_at = toks.iter().position(|t| matches!(t, Tok::Call { .. }));
    for (i, t) in toks.iter().enumerate() {
        if let Tok::Drop(n) = t {
            let is_guard = matches!(bound, Some(g) if g == n);
            if is_guard && call_at.map(|c| i < c).unwrap_or(true) {
                return bad("the guard is dropped before the RawList call");
            }
        }
    }
    let calls: Vec<(&String, &String)> = toks
        .iter()
        .filter_map(|t| if let Tok::Call { recv, method, .. } = t { Some((recv, method)) } else { None })
        .collect();
    if calls.len() != 1 || calls[0].1 != method {
        return bad(&format!("expected exactly one call of RawList::{method}"));
    }
    match bound {
        None => {
            if calls[0].0 != "self.0.lock().unwrap()" {
                return bad("the RawList call does not go through the temporary guard");
            }
            Ok(Shape::Temp)
        }
        Some(g) => {
            if calls[0].0 != g {
                return bad("the RawList call does not go through the let-bound guard");
            }
            Ok(Shape::Let)
        }
    }
}

fn c16facts(repo: &Path) -> Result<String, String> {
    let f = find::parse(repo, "src/value/list.rs")?;
    let mut notes: Vec<String> = vec![];

    // ---- every function above the lock: which of them take the lock or touch the buffer
    let mut en = Enumerator { label: vec![], out: vec![] };
    en.visit_file(&f);
    let mut unmodelled: Vec<String> = vec![];
    let mut locking: Vec<String> = vec![];
    for i in &en.out {
        if i.locks.is_empty() && i.bufs.is_empty() {
            continue;
        }
        let mut what = vec![];
        if !i.locks.is_empty() {
            what.push(format!("takes {}", i.locks.join(", ")));
        }
        if !i.bufs.is_empty() {
            what.push(format!("reaches the element buffer through {}", i.bufs.join(", ")));
        }
        if i.ret_ptr && !i.locks.is_empty() {
            what.push("returns a reference / pointer (whatever it locked is unlocked when it returns)".into());
        }
        if MODELLED.contains(&i.name.as_str()) {
            locking.push(format!("{}: {}", i.name, what.join("; ")));
        } else {
            unmodelled.push(format!("{}: {}", i.name, what.join("; ")));
        }
    }
    notes.push(format!(
        "functions above the lock: {} ({} take the lock or touch the buffer, {} of them outside the modelled set)",
        en.out.len(),
        locking.len() + unmodelled.len(),
        unmodelled.len()
    ));

    // ---- ErasedList's one-section methods
    let mut shapes = vec![];
    let mut erased_get_temp = false;
    for (m, raw, lean) in [
        ("push", "push", "push"),
        ("get", "get", "get"),
        ("contains", "contains", "contains"),
        ("contains_owned", "contains", "containsOwned"),
        ("index", "index", "index"),
        ("index_owned", "index", "indexOwned"),
        ("swap", "swap", "swap"),
        ("len", "len", "len"),
        ("capacity", "capacity", "capacity"),
        ("is_empty", "is_empty", "isEmpty"),
    ] {
        let b = match find::func(&f, m, Some("ErasedList")) {
            Ok(b) => b,
            // the pointer-returning `ErasedList::get` may be absent (nothing
            // hands an element pointer out of the lock then)
            Err(e) if m == "get" && e.contains("not found") => {
                notes.push("ErasedList::get: absent (no method returns an element pointer)".into());
                continue;
            }
            Err(e) => return Err(e),
        };
        let t = trace(&b.block);
        let s = single_section(&format!("ErasedList::{m}"), &t, raw)?;
        if m == "get" {
            erased_get_temp = s == Shape::Temp;
            if !erased_get_temp {
                return Err(format!("ErasedList::get returns a pointer but holds a let-bound guard: {}", show(&t)));
            }
        }
        notes.push(format!("ErasedList::{m}: {}", show(&t)));
        shapes.push(format!("(.{lean}, .{})", if s == Shape::Temp { "tempGuard" } else { "letGuard" }));
    }

    // ---- the two `get`s that clone the element
    let g = find::func(&f, "get", Some("List"))?;
    let gt = trace(&g.block);
    let get_under = clone_under_guard("List::get", &gt, &["self.inner"], erased_get_temp)?;
    notes.push(format!("List::get: {} ↦ clone under guard = {get_under}", show(&gt)));
    let lg = find::func(&f, "list_get", None)?;
    let lt = trace(&lg.block);
    let ffi_under = clone_under_guard("ffi::list_get", &lt, &["this"], erased_get_temp)?;
    notes.push(format!("ffi::list_get: {} ↦ clone under guard = {ffi_under}", show(&lt)));

    // ---- concat and ==: lock / read / unlock sequence
    let who = |recv: &str, names: &[(&str, &str)]| -> Option<String> {
        names.iter().find(|(r, _)| *r == recv).map(|(_, w)| w.to_string())
    };
    let c = find::func(&f, "concat", Some("ErasedList"))?;
    let ct = trace(&c.block);
    struct AllIfs(Vec<syn::ExprIf>);
    impl<'ast> Visit<'ast> for AllIfs {
        fn visit_expr_if(&mut self, i: &'ast syn::ExprIf) {
            self.0.push(i.clone());
            syn::visit::visit_expr_if(self, i);
        }
    }
    let locks_of = |toks: &[Tok]| -> Vec<String> {
        toks.iter().filter_map(|t| if let Tok::Lock { recv, .. } = t { Some(recv.clone()) } else { None }).collect()
    };
    let mut cifs = AllIfs(vec![]);
    cifs.visit_block(&c.block);
    let same_if = cifs.0.iter().find(|i| norm(&i.cond) == "Arc::ptr_eq(&self.0,&other.0)");
    /// which guard each `extend` reads from: the argument of the call
    struct ExtendArgs(Vec<String>);
    impl<'ast> Visit<'ast> for ExtendArgs {
        fn visit_expr_method_call(&mut self, m: &'ast syn::ExprMethodCall) {
            if m.method == "extend" && m.args.len() == 1 {
                self.0.push(norm(&m.args[0]).trim_start_matches('&').to_string());
            }
            syn::visit::visit_expr_method_call(self, m);
        }
    }
    let mut ea = ExtendArgs(vec![]);
    ea.visit_block(&c.block);
    let mut concat_trace: Vec<String> = vec![];
    let concat_atomic;
    if let Some(si) = same_if {
        // both operands held: `if ptr_eq { lock self } else if self < other { lock self; lock other }
        // else { lock other; lock self }`, then lock new, extend(&a), extend(b or a), nothing dropped early
        let bad = |why: &str| format!("ErasedList::concat (both operands held): {why}; lock trace: {}", show(&ct));
        let then_l = locks_of(&trace(&si.then_branch));
        let (mid_l, else_l) = match &si.else_branch {
            Some((_, e)) => match &**e {
                syn::Expr::If(i2) if norm(&i2.cond) == "Arc::as_ptr(&self.0)<Arc::as_ptr(&other.0)" => {
                    let e2 = match &i2.else_branch {
                        Some((_, e)) => match &**e {
                            syn::Expr::Block(b) => locks_of(&trace(&b.block)),
                            _ => vec![],
                        },
                        None => vec![],
                    };
                    (locks_of(&trace(&i2.then_branch)), e2)
                }
                _ => return Err(bad("the else branch is not the address comparison")),
            },
            None => return Err(bad("no else branch")),
        };
        if then_l != ["self.0"] || mid_l != ["self.0", "other.0"] || else_l != ["other.0", "self.0"] {
            return Err(bad(&format!("branches lock {then_l:?} / {mid_l:?} / {else_l:?}")));
        }
        let rest: Vec<&Tok> = ct.iter().skip_while(|t| !matches!(t, Tok::Lock { recv, .. } if recv == "new.0")).collect();
        let all = locks_of(&ct);
        if all.len() != 6 || all[5] != "new.0" {
            return Err(bad("expected the five operand locks of the three branches, then lock(new.0)"));
        }
        let shape_ok = matches!(rest.as_slice(),
            [Tok::Lock { bound: Some(g), .. }, Tok::Call { recv: r1, method: m1, .. }, Tok::Call { recv: r2, method: m2, .. }, tail @ ..]
            if r1 == g && r2 == g && m1 == "extend" && m2 == "extend"
               && tail.iter().all(|t| matches!(t, Tok::Drop(n) if n == g)));
        if !shape_ok {
            return Err(bad("after lock(new.0): expected two extends of the new list and at most its drop"));
        }
        if ct.iter().any(|t| matches!(t, Tok::Drop(n) if n == "a" || n == "b")) {
            return Err(bad("an operand guard is dropped explicitly"));
        }
        if ea.0 != ["a", "b.as_deref().unwrap_or(&a)"] {
            return Err(bad(&format!("the extends read {:?}", ea.0)));
        }
        concat_atomic = true;
        concat_trace = [".lock .self", ".lock .other", ".lock .new", ".read .self", ".read .other", ".unlock .new"]
            .iter()
            .map(|s| s.to_string())
            .collect();
    } else {
        concat_atomic = false;
        let mut guard_of: Vec<(String, String)> = vec![]; // guard name -> who
        for t in &ct {
            match t {
                Tok::Lock { recv, bound: Some(b), .. } => {
                    let w = who(recv, &[("self.0", "self"), ("other.0", "other"), ("new.0", "new")])
                        .ok_or(format!("ErasedList::concat locks `{recv}`: {}", show(&ct)))?;
                    guard_of.push((b.clone(), w.clone()));
                    concat_trace.push(format!(".lock .{w}"));
                }
                Tok::Drop(n) => {
                    let w = guard_of
                        .iter()
                        .find(|(g, _)| g == n)
                        .map(|(_, w)| w.clone())
                        .ok_or(format!("ErasedList::concat drops `{n}`, not a guard: {}", show(&ct)))?;
                    concat_trace.push(format!(".unlock .{w}"));
                }
                Tok::Call { recv, method, .. } if method == "extend" => {
                    let tgt = guard_of.iter().find(|(g, _)| g == recv).map(|(_, w)| w.as_str());
                    if tgt != Some("new") {
                        return Err(format!("ErasedList::concat extends `{recv}`, not the new list: {}", show(&ct)));
                    }
                    concat_trace.push(".extend".to_string());
                }
                other => {
                    return Err(format!("ErasedList::concat: unexpected `{}` in {}", show(std::slice::from_ref(other)), show(&ct)));
                }
            }
        }
        let mut ea_it = ea.0.iter();
        for t in concat_trace.iter_mut() {
            if t == ".extend" {
                let a = ea_it.next().ok_or("concat: extend without argument")?;
                let w = guard_of
                    .iter()
                    .find(|(g, _)| g == a)
                    .map(|(_, w)| w.clone())
                    .ok_or(format!("ErasedList::concat extends from `{a}`, not a guard"))?;
                *t = format!(".read .{w}");
            }
        }
    }
    notes.push(format!("ErasedList::concat: both operands held = {concat_atomic}; {}", show(&ct)));

    let e = find::func(&f, "eq", Some("PartialEq for ErasedList"))?;
    let et = trace(&e.block);
    // address-ordered locking: `if Arc::as_ptr(&self.0) < Arc::as_ptr(&other.0) { lock self; lock other }
    // else { lock other; lock self }`
    struct Ifs(Vec<syn::ExprIf>);
    impl<'ast> Visit<'ast> for Ifs {
        fn visit_expr_if(&mut self, i: &'ast syn::ExprIf) {
            self.0.push(i.clone());
            syn::visit::visit_expr_if(self, i);
        }
    }
    let mut ifs = Ifs(vec![]);
    ifs.visit_block(&e.block);
    let lock_recvs = |toks: &[Tok]| -> Vec<String> {
        toks.iter().filter_map(|t| if let Tok::Lock { recv, .. } = t { Some(recv.clone()) } else { None }).collect()
    };
    let ordered_if: Vec<&syn::ExprIf> = ifs
        .0
        .iter()
        .filter(|i| {
            let c = norm(&i.cond);
            c == "Arc::as_ptr(&self.0)<Arc::as_ptr(&other.0)" || c == "Arc::as_ptr(&self.0)<=Arc::as_ptr(&other.0)"
        })
        .collect();
    let all_locks = lock_recvs(&et);
    let eq_ordered = match ordered_if.as_slice() {
        [] => {
            if all_locks != ["self.0", "other.0"] {
                return Err(format!("ErasedList::eq: expected lock(self.0) then lock(other.0): {}", show(&et)));
            }
            false
        }
        [i] => {
            let then_l = lock_recvs(&trace(&i.then_branch));
            let else_l = match &i.else_branch {
                Some((_, e)) => match &**e {
                    syn::Expr::Block(b) => lock_recvs(&trace(&b.block)),
                    _ => vec![],
                },
                None => vec![],
            };
            if then_l != ["self.0", "other.0"] || else_l != ["other.0", "self.0"] || all_locks.len() != 4 {
                return Err(format!(
                    "ErasedList::eq: address-ordered locking expected `self, other` / `other, self` in the two branches, found {then_l:?} / {else_l:?}: {}",
                    show(&et)
                ));
            }
            true
        }
        _ => return Err(format!("ErasedList::eq: more than one address comparison: {}", show(&et))),
    };
    let mut eq_trace = vec![];
    let mut eq_guards: Vec<(String, String)> = vec![];
    let mut locks_seen = 0;
    for t in &et {
        match t {
            Tok::Lock { recv, bound: Some(b), .. } => {
                let w = who(recv, &[("self.0", "self"), ("other.0", "other")])
                    .ok_or(format!("ErasedList::eq locks `{recv}`: {}", show(&et)))?;
                eq_guards.push((b.clone(), w.clone()));
                locks_seen += 1;
                // the else branch of the ordered form repeats the two locks in the other order
                if locks_seen <= 2 {
                    eq_trace.push(format!(".lock .{w}"));
                }
            }
            Tok::Call { recv, method, .. } if method == "get" || method == "len" => {
                let w = eq_guards
                    .iter()
                    .rev()
                    .find(|(g, _)| g == recv)
                    .map(|(_, w)| w.clone())
                    .ok_or(format!("ErasedList::eq reads through `{recv}`, not a guard: {}", show(&et)))?;
                let tok = format!(".read .{w}");
                if eq_trace.last() != Some(&tok) && !eq_trace[eq_trace.len().saturating_sub(2)..].contains(&tok) {
                    eq_trace.push(tok);
                }
            }
            other => {
                return Err(format!("ErasedList::eq: unexpected `{}` in {}", show(std::slice::from_ref(other)), show(&et)));
            }
        }
    }
    // `Arc::ptr_eq` short-cut must come first (otherwise `l == l` locks twice)
    let first = e.block.stmts.first().map(|s| norm(s)).unwrap_or_default();
    let ptr_eq_first = first.starts_with("ifArc::ptr_eq(&self.0,&other.0){returntrue;}");
    notes.push(format!("ErasedList::eq: ptr_eq first = {ptr_eq_first}; address-ordered = {eq_ordered}; {}", show(&et)));

    // ---- the typed `List<T>::eq` (Rust-side `==`): same lock discipline as ErasedList::eq
    let te = find::func(&f, "eq", Some("PartialEq for List"))?;
    let tt = trace(&te.block);
    let tl: Vec<String> =
        tt.iter().filter_map(|t| if let Tok::Lock { recv, .. } = t { Some(recv.clone()) } else { None }).collect();
    let mut tifs = Ifs(vec![]);
    tifs.visit_block(&te.block);
    let t_ordered_if: Vec<&syn::ExprIf> = tifs
        .0
        .iter()
        .filter(|i| norm(&i.cond) == "Arc::as_ptr(&self.inner.0)<Arc::as_ptr(&other.inner.0)")
        .collect();
    let typed_ordered = match t_ordered_if.as_slice() {
        [i] => {
            let then_l = lock_recvs(&trace(&i.then_branch));
            let else_l = match &i.else_branch {
                Some((_, e)) => match &**e {
                    syn::Expr::Block(b) => lock_recvs(&trace(&b.block)),
                    _ => vec![],
                },
                None => vec![],
            };
            if then_l != ["self.inner.0", "other.inner.0"] || else_l != ["other.inner.0", "self.inner.0"] || tl.len() != 4 {
                return Err(format!(
                    "List<T>::eq: address-ordered locking expected `self, other` / `other, self` in the two branches, found {then_l:?} / {else_l:?}: {}",
                    show(&tt)
                ));
            }
            true
        }
        [] => {
            // argument order (or, on the pinned tree, `self` twice): not the ordered form
            if tl.is_empty() {
                // it takes no lock itself (whatever it calls is listed among the functions above)
                notes.push("List<T>::eq takes no lock itself".into());
            } else if tl != ["self.inner.0", "other.inner.0"] && tl != ["self.inner.0", "self.inner.0"] {
                return Err(format!("List<T>::eq: unrecognised lock sequence {tl:?}: {}", show(&tt)));
            }
            false
        }
        _ => return Err(format!("List<T>::eq: more than one address comparison: {}", show(&tt))),
    };
    if tt.iter().any(|t| matches!(t, Tok::Drop(_))) {
        return Err(format!("List<T>::eq drops a guard explicitly: {}", show(&tt)));
    }
    let tfirst = te.block.stmts.first().map(|s| norm(s)).unwrap_or_default();
    let typed_ptr_eq_first = tfirst.starts_with("ifArc::ptr_eq(&self.inner.0,&other.inner.0){returntrue;}");
    notes.push(format!(
        "List<T>::eq: ptr_eq first = {typed_ptr_eq_first}; address-ordered = {typed_ordered}; {}",
        show(&tt)
    ));

    // ---- the Rust-side walks over the whole buffer
    let tv = find::func(&f, "to_vec", Some("List"))?;
    let (to_vec_under, tv_note) = to_vec_under_guard(&tv);
    notes.push(format!("List::to_vec: walk under its guard = {to_vec_under}; {tv_note}"));
    let (typed_walk_under, tw_note) = typed_eq_walk_under_guards(&te);
    notes.push(format!("List<T>::eq: walk under both guards = {typed_walk_under}; {tw_note}"));

    let b = |x: bool| if x { "true" } else { "false" };
    let mut out = String::new();
    out.push_str("/- GENERATED by /verif/extract (target `c16facts`) from src/value/list.rs — do not edit.\n");
    for n in &notes {
        out.push_str(&format!("   {n}\n"));
    }
    for l in &locking {
        out.push_str(&format!("   MODELLED {l}\n"));
    }
    for u in &unmodelled {
        out.push_str(&format!("   UNMODELLED {u}\n"));
    }
    out.push_str("-/\nimport RotoV.Model.ListTrace\nnamespace RotoV.Gen.C16\nopen RotoV.ListConc\n\n");
    out.push_str(&format!(
        "/-- number of functions of src/value/list.rs above the lock (module `ffi`, impls of `List`, `IntoIter`,\n    `ErasedList`) that take a list's lock or touch the element buffer and are NOT among the operations the\n    model has steps for (listed as UNMODELLED above) -/\ndef unmodelledLockingFns : Nat := {}\n/-- … and the number of those that are -/\ndef modelledLockingFns : Nat := {}\n\n",
        unmodelled.len(),
        locking.len()
    ));
    out.push_str(&format!(
        "/-- `List::to_vec`: the whole walk (slice, clone of every element) inside one `let`-bound guard -/\ndef toVecUnderGuard : Bool := {}\n/-- `List<T>::eq`: both slices are built from, and compared under, the two guards -/\ndef typedEqWalkUnderGuards : Bool := {}\n\n",
        b(to_vec_under),
        b(typed_walk_under)
    ));
    out.push_str(&format!(
        "def facts : Facts :=\n  {{ getUnderGuard := {}\n    ffiGetUnderGuard := {}\n    eqOrdered := {}\n    concatAtomic := {} }}\n\n",
        b(get_under),
        b(ffi_under),
        b(eq_ordered),
        b(concat_atomic)
    ));
    out.push_str(&format!("def methodShapes : List (Method × Shape) :=\n  [{}]\n\n", shapes.join(", ")));
    out.push_str(&format!("def concatTrace : List LockTok :=\n  [{}]\n\n", concat_trace.join(", ")));
    out.push_str(&format!("def eqPtrEqFirst : Bool := {}\n\n", b(ptr_eq_first)));
    out.push_str(&format!(
        "/-- the typed `List<T>::eq`: `Arc::ptr_eq` short-cut first, then both mutexes in address order -/\ndef typedEqPtrEqFirst : Bool := {}\ndef typedEqOrdered : Bool := {}\n\n",
        b(typed_ptr_eq_first),
        b(typed_ordered)
    ));
    out.push_str(&format!("def eqTrace : List LockTok :=\n  [{}]\n\n", eq_trace.join(", ")));
    out.push_str(&raw_traces(&f)?);
    out.push_str("\nend RotoV.Gen.C16\n");
    Ok(out)
}

// ---------------------------------------------------------------- raw lock traces (for the skeleton derived in Lean)

/// a token of the raw trace of one path through one function
#[derive(Clone, Debug, PartialEq)]
enum R {
    /// schedule point before a lock acquisition (`c16_api::sched_*(&X.0, …)`)
    Point(String),
    /// schedule point between lookup and use (`c16_api::lookup_then_use(&X.0, …)`)
    UsePoint(String),
    Lock(String),
    Unlock(String),
    Access(String),
}

struct Guard {
    /// name of the binding that holds the guard (`None`: a temporary of the statement)
    name: Option<String>,
    who: String,
    depth: usize,
    alive: bool,
}

/// One path through a function body, linearised: `choose` decides the `if`s
/// on `Arc::ptr_eq` / the address comparison; every other branch is visited
/// in source order (the longest path). Guard lifetimes: a temporary guard
/// dies at the end of its statement, a `let`-bound one at `drop(name)`, at the
/// end of its block (unless the block's tail expression hands it out), or at
/// the end of the function.
struct RawTracer<'a> {
    out: Vec<R>,
    guards: Vec<Guard>,
    depth: usize,
    choose: &'a [(&'a str, bool)],
    in_chosen: usize,
    ended: bool,
    binding: Option<String>,
    last_access: Option<String>,
    /// guards handed out by the tail tuple of the block just left, by position
    moved: Vec<Option<usize>>,
    notes: Vec<String>,
}

fn who_of_lock_recv(recv: &str) -> Option<String> {
    match recv {
        "self.0" | "self.inner.0" | "this.0" => Some("self".into()),
        "other.0" | "other.inner.0" => Some("other".into()),
        "new.0" => Some("new".into()),
        _ => None,
    }
}

const LOCK_METHODS: &[&str] = &["lock", "read", "write"];

impl<'a> RawTracer<'a> {
    fn guard_named(&self, n: &str) -> Option<usize> {
        self.guards.iter().rposition(|g| g.alive && g.name.as_deref() == Some(n))
    }
    fn release(&mut self, i: usize) {
        if self.guards[i].alive {
            self.guards[i].alive = false;
            self.out.push(R::Unlock(self.guards[i].who.clone()));
        }
    }
    fn access(&mut self, who: String) {
        self.last_access = Some(who.clone());
        self.out.push(R::Access(who));
    }
    /// alive guards named by identifiers inside `e`
    fn guards_in(&self, e: &syn::Expr) -> Vec<usize> {
        struct Ids(Vec<String>);
        impl<'ast> Visit<'ast> for Ids {
            fn visit_expr_path(&mut self, p: &'ast syn::ExprPath) {
                if let Some(i) = p.path.get_ident() {
                    self.0.push(i.to_string());
                }
            }
        }
        let mut ids = Ids(vec![]);
        ids.visit_expr(e);
        let mut out = vec![];
        for n in ids.0 {
            if let Some(g) = self.guard_named(&n) {
                if !out.contains(&g) {
                    out.push(g);
                }
            }
        }
        out
    }
    fn hook(&mut self, text: &str) {
        // `c16_api::sched_lock(&X.0, "site")`, `sched_read`, …; `lookup_then_use(&X.0, p, "site")`
        let arg = |after: &str| -> Option<String> {
            let i = text.find(after)? + after.len();
            let rest = &text[i..];
            let rest = rest.strip_prefix('&').unwrap_or(rest);
            let end = rest.find(',')?;
            who_of_lock_recv(&rest[..end])
        };
        if let Some(i) = text.find("c16_api::sched_") {
            let open = text[i..].find('(').map(|j| i + j + 1);
            if let Some(o) = open {
                let rest = &text[o..];
                let rest = rest.strip_prefix('&').unwrap_or(rest);
                if let Some(end) = rest.find(',') {
                    if let Some(w) = who_of_lock_recv(&rest[..end]) {
                        self.out.push(R::Point(w));
                        return;
                    }
                }
            }
            self.notes.push(format!("schedule point with an unrecognised lock: {text}"));
        } else if text.contains("lookup_then_use(") {
            match arg("lookup_then_use(") {
                Some(w) => self.out.push(R::UsePoint(w)),
                None => self.notes.push(format!("use point with an unrecognised lock: {text}")),
            }
        }
    }
}

impl<'ast, 'a> Visit<'ast> for RawTracer<'a> {
    fn visit_block(&mut self, b: &'ast syn::Block) {
        self.depth += 1;
        let d = self.depth;
        for s in &b.stmts {
            self.visit_stmt(s);
        }
        // guards of this block: handed out by the tail expression, or released
        let mut moved: Vec<Option<usize>> = vec![];
        if let Some(syn::Stmt::Expr(tail, None)) = b.stmts.last() {
            let elems: Vec<&syn::Expr> = match tail {
                syn::Expr::Tuple(t) => t.elems.iter().collect(),
                e => vec![e],
            };
            for e in elems {
                let e = match e {
                    syn::Expr::Call(c) if norm(&c.func) == "Some" && c.args.len() == 1 => &c.args[0],
                    e => e,
                };
                let g = match e {
                    syn::Expr::Path(p) => p.path.get_ident().and_then(|i| self.guard_named(&i.to_string())),
                    _ => None,
                };
                moved.push(g.filter(|&g| self.guards[g].depth == d));
            }
        }
        for i in (0..self.guards.len()).rev() {
            if self.guards[i].alive && self.guards[i].depth == d {
                if moved.contains(&Some(i)) {
                    self.guards[i].depth = d - 1;
                } else if !self.ended {
                    self.release(i);
                }
            }
        }
        self.moved = moved;
        self.depth -= 1;
    }
    fn visit_stmt(&mut self, s: &'ast syn::Stmt) {
        if self.ended {
            return;
        }
        match s {
            syn::Stmt::Local(l) if is_hook_attr(&l.attrs) => {
                let t = norm(l);
                self.hook(&t);
            }
            syn::Stmt::Expr(e, _) if expr_is_hook(e) => {
                let t = norm(e);
                self.hook(&t);
            }
            _ => {
                syn::visit::visit_stmt(self, s);
                // temporaries of the statement die here
                for i in (0..self.guards.len()).rev() {
                    if self.guards[i].alive && self.guards[i].name.is_none() {
                        self.release(i);
                    }
                }
            }
        }
    }
    fn visit_local(&mut self, l: &'ast syn::Local) {
        match (&l.pat, &l.init) {
            (syn::Pat::Ident(i), Some(init)) if lock_recv_any(&init.expr).is_some() => {
                self.binding = Some(i.ident.to_string());
                syn::visit::visit_local(self, l);
                self.binding = None;
            }
            (syn::Pat::Tuple(t), Some(init)) => {
                self.moved.clear();
                self.visit_expr(&init.expr);
                let moved = std::mem::take(&mut self.moved);
                for (p, g) in t.elems.iter().zip(moved) {
                    if let (syn::Pat::Ident(i), Some(g)) = (p, g) {
                        self.guards[g].name = Some(i.ident.to_string());
                    }
                }
            }
            _ => syn::visit::visit_local(self, l),
        }
    }
    fn visit_expr_if(&mut self, i: &'ast syn::ExprIf) {
        let c = norm(&i.cond).replace(".inner", "");
        if let Some((_, take_then)) = self.choose.iter().find(|(k, _)| *k == c) {
            self.in_chosen += 1;
            if *take_then {
                self.visit_block(&i.then_branch);
            } else if let Some((_, e)) = &i.else_branch {
                match &**e {
                    syn::Expr::Block(b) => self.visit_block(&b.block),
                    e => self.visit_expr(e),
                }
            }
            self.in_chosen -= 1;
        } else {
            syn::visit::visit_expr_if(self, i);
        }
    }
    fn visit_expr_return(&mut self, r: &'ast syn::ExprReturn) {
        syn::visit::visit_expr_return(self, r);
        if self.in_chosen > 0 {
            self.ended = true;
        }
    }
    fn visit_expr_method_call(&mut self, m: &'ast syn::ExprMethodCall) {
        syn::visit::visit_expr_method_call(self, m);
        let recv = norm(&m.receiver);
        let method = m.method.to_string();
        if LOCK_METHODS.contains(&method.as_str()) && recv.ends_with(".0") {
            match who_of_lock_recv(&recv) {
                Some(w) => {
                    self.out.push(R::Lock(w.clone()));
                    self.guards.push(Guard { name: self.binding.clone(), who: w, depth: self.depth, alive: true });
                }
                None => self.notes.push(format!("lock on `{recv}`")),
            }
        } else if method == "clone" && !recv.contains("vtable") && !recv.ends_with(".0") && recv != "self" {
            let w = self.last_access.clone().unwrap_or_else(|| "self".into());
            self.access(w);
        } else if TRACKED.contains(&method.as_str()) {
            // through a guard (by name, or the temporary `X.lock().unwrap()`)
            let via = match &*m.receiver {
                syn::Expr::Path(p) => p.path.get_ident().and_then(|i| self.guard_named(&i.to_string())),
                e => lock_recv_any(e)
                    .and_then(|r| who_of_lock_recv(&norm(r)))
                    .and_then(|w| self.guards.iter().rposition(|g| g.alive && g.name.is_none() && g.who == w)),
            };
            if let Some(g) = via {
                let w = self.guards[g].who.clone();
                self.access(w);
                for a in &m.args {
                    for g in self.guards_in(a) {
                        let w = self.guards[g].who.clone();
                        self.out.push(R::Access(w));
                    }
                }
            }
        }
    }
    fn visit_expr_field(&mut self, f: &'ast syn::ExprField) {
        syn::visit::visit_expr_field(self, f);
        if let syn::Member::Named(m) = &f.member {
            if m == "ptr" {
                let w = match &*f.base {
                    syn::Expr::Path(p) => p
                        .path
                        .get_ident()
                        .and_then(|i| self.guard_named(&i.to_string()))
                        .map(|g| self.guards[g].who.clone()),
                    _ => None,
                };
                // (a `.ptr` whose base is not a live guard: an access outside every guard)
                self.access(w.unwrap_or_else(|| "self".into()));
                if self.guards_in(&f.base).is_empty() {
                    self.notes.push(format!("`{}.ptr` is not reached through a live guard", norm(&f.base)));
                    // make it visible in the trace: the access stands outside its guard
                    let w = self.last_access.clone().unwrap();
                    if self.guards.iter().any(|g| g.alive && g.who == w) {
                        self.out.pop();
                        self.out.push(R::Access("unknown".into()));
                    }
                }
            }
        }
    }
    fn visit_expr_call(&mut self, c: &'ast syn::ExprCall) {
        syn::visit::visit_expr_call(self, c);
        let f = norm(&c.func);
        if f == "drop" && c.args.len() == 1 {
            if let Some(g) = self.guard_named(&norm(&c.args[0])) {
                self.release(g);
            }
        } else if f == "(clone_fn)" || f == "clone_fn" || f.ends_with("copy_nonoverlapping") {
            let w = self.last_access.clone().unwrap_or_else(|| "self".into());
            self.access(w);
        }
    }
}

/// `<recv>.lock().unwrap()` (also `.read()` / `.write()`)
fn lock_recv_any(e: &syn::Expr) -> Option<&syn::Expr> {
    if let syn::Expr::MethodCall(u) = e {
        if u.method == "unwrap" {
            if let syn::Expr::MethodCall(l) = &*u.receiver {
                if LOCK_METHODS.contains(&l.method.to_string().as_str()) {
                    return Some(&l.receiver);
                }
            }
        }
    }
    None
}

fn raw_trace(block: &syn::Block, choose: &[(&str, bool)]) -> (Vec<R>, Vec<String>) {
    let mut t = RawTracer {
        out: vec![],
        guards: vec![],
        depth: 0,
        choose,
        in_chosen: 0,
        ended: false,
        binding: None,
        last_access: None,
        moved: vec![],
        notes: vec![],
    };
    t.visit_block(block);
    // whatever is still held goes at the end of the function
    for i in (0..t.guards.len()).rev() {
        t.release(i);
    }
    (t.out, t.notes)
}

fn lean_rtoks(toks: &[R]) -> String {
    let one = |t: &R| match t {
        R::Point(w) => format!(".point .{w}"),
        R::UsePoint(w) => format!(".usePoint .{w}"),
        R::Lock(w) => format!(".lock .{w}"),
        R::Unlock(w) => format!(".unlock .{w}"),
        R::Access(w) => format!(".access .{w}"),
    };
    format!("[{}]", toks.iter().map(one).collect::<Vec<_>>().join(", "))
}

const PTR_EQ: &str = "Arc::ptr_eq(&self.0,&other.0)";
const ADDR_LT: &str = "Arc::as_ptr(&self.0)<Arc::as_ptr(&other.0)";

/// the raw traces of every modelled function, as Lean definitions
fn raw_traces(f: &syn::File) -> Result<String, String> {
    let mut out = String::new();
    out.push_str("/-! ### raw lock traces: one per modelled function and path (`same`: both operands are one list,\n    `lt`: `self` has the lower address, `ge`: the higher); Model/ListTrace derives the steps from them -/\n\n");
    let single: &[(&str, Option<&str>, &str)] = &[
        ("push", Some("ErasedList"), "rtPush"),
        ("contains", Some("ErasedList"), "rtContains"),
        ("contains_owned", Some("ErasedList"), "rtContainsOwned"),
        ("index", Some("ErasedList"), "rtIndex"),
        ("index_owned", Some("ErasedList"), "rtIndexOwned"),
        ("swap", Some("ErasedList"), "rtSwap"),
        ("len", Some("ErasedList"), "rtLen"),
        ("capacity", Some("ErasedList"), "rtCapacity"),
        ("is_empty", Some("ErasedList"), "rtIsEmpty"),
        ("get", Some("List"), "rtGet"),
        ("list_get", None, "rtFfiGet"),
        ("to_vec", Some("List"), "rtToVec"),
    ];
    for (name, imp, lean) in single {
        let b = find::func(f, name, *imp)?;
        let (t, notes) = raw_trace(&b.block, &[]);
        for n in notes {
            out.push_str(&format!("-- {name}: {n}\n"));
        }
        out.push_str(&format!("def {lean} : List RTok :=\n  {}\n\n", lean_rtoks(&t)));
    }
    let multi: &[(&str, &str, &str)] = &[
        ("eq", "PartialEq for ErasedList", "rtEq"),
        ("eq", "PartialEq for List", "rtTypedEq"),
        ("concat", "ErasedList", "rtConcat"),
    ];
    for (name, imp, lean) in multi {
        let b = find::func(f, name, Some(imp))?;
        for (suffix, choose) in [
            ("Same", vec![(PTR_EQ, true)]),
            ("Lt", vec![(PTR_EQ, false), (ADDR_LT, true)]),
            ("Ge", vec![(PTR_EQ, false), (ADDR_LT, false)]),
        ] {
            let (t, notes) = raw_trace(&b.block, &choose);
            for n in notes {
                out.push_str(&format!("-- {imp}::{name} ({suffix}): {n}\n"));
            }
            out.push_str(&format!("def {lean}{suffix} : List RTok :=\n  {}\n\n", lean_rtoks(&t)));
        }
    }
    Ok(out)
}
