//! Scalar operator tables shared by C01 / C10 / C20.
//!
//!  * `OpTables.lean`: `binop_to_int_cmp`, `binop_to_float_cmp`,
//!    `Lowerer::binop`, integer arm of `Lowerer::literal`, `lower_type`
//!    (primitive arm), `cranelift_type`, `integer_operand`, `int_cmp`,
//!    `float_cmp` and the scalar arms of `FuncGen::instruction`.
//!  * `EvalArms.lean`: scalar arms of `lir::eval`, and `IrValue`'s accessors.

use crate::find;
use crate::r2l::{self, CallRw, Cx, Meth};
use crate::{footer, header};
use quote::ToTokens;
use std::collections::HashMap;
use std::path::Path;
use syn::visit_mut::VisitMut;

/// Replace sub-expressions by their whitespace-stripped text.
pub struct ExprReplacer {
    pub map: HashMap<String, syn::Expr>,
    pub hits: HashMap<String, usize>,
}

impl ExprReplacer {
    pub fn new(pairs: &[(&str, &str)]) -> Self {
        let mut map = HashMap::new();
        for (from, to) in pairs {
            map.insert(
                from.replace(' ', ""),
                syn::parse_str::<syn::Expr>(to).expect("replacement parses"),
            );
        }
        ExprReplacer {
            map,
            hits: HashMap::new(),
        }
    }
    pub fn require(&self, key: &str, min: usize) -> Result<(), String> {
        let k = key.replace(' ', "");
        let n = self.hits.get(&k).copied().unwrap_or(0);
        if n < min {
            Err(format!(
                "expected source fragment `{key}` at least {min} time(s), found {n}"
            ))
        } else {
            Ok(())
        }
    }
}

impl VisitMut for ExprReplacer {
    fn visit_expr_mut(&mut self, e: &mut syn::Expr) {
        let s = e.to_token_stream().to_string().replace(' ', "");
        if let Some(r) = self.map.get(&s) {
            *self.hits.entry(s).or_insert(0) += 1;
            *e = r.clone();
            return;
        }
        syn::visit_mut::visit_expr_mut(self, e);
    }
}

fn base_cx() -> Cx {
    let mut cx = Cx::default();
    for (r, l) in [
        ("ast::BinOp", "BinOp"),
        ("types::IntKind", "IntKind"),
    ] {
        cx.paths.insert(r.into(), l.into());
    }
    // Cranelift type constants used bare in codegen
    for t in ["I8", "I16", "I32", "I64", "F32", "F64"] {
        cx.paths.insert(t.into(), format!("CTy.{t}"));
    }
    cx
}

/// `fn name(params) -> Res T := body` from a whole Rust function whose body
/// is in the subset. `params` is the Lean binder text.
fn whole_fn(
    cx: &Cx,
    f: &find::FnBody,
    lean_name: &str,
    params: &str,
    ret: &str,
) -> Result<String, String> {
    let mut stmts = f.block.stmts.clone();
    if let Some(syn::Stmt::Expr(e, None)) = stmts.last_mut() {
        *e = r2l::push_ctor_into_match(e);
    }
    let body = cx.block(&stmts)?;
    Ok(format!(
        "def {lean_name} (dbg : Bool) {params} : Res ({ret}) :=\n {body}\n\n"
    ))
}

pub fn optables(repo: &Path) -> Result<String, String> {
    let lower = find::parse(repo, "src/lir/lower.rs")?;
    let codegen = find::parse(repo, "src/codegen/mod.rs")?;
    let mut out = header(
        "OpTables",
        &["src/lir/lower.rs", "src/codegen/mod.rs"],
    );
    out.push_str("variable [FloatOps]\n\n");

    // ---- binop_to_int_cmp / binop_to_float_cmp (whole functions)
    {
        let cx = base_cx();
        let f = find::func(&lower, "binop_to_int_cmp", None)?;
        out.push_str(&whole_fn(
            &cx,
            &f,
            "binop_to_int_cmp",
            "(op : BinOp) (kind : IntKind)",
            "Option IntCmp",
        )?);
        let f = find::func(&lower, "binop_to_float_cmp", None)?;
        out.push_str(&whole_fn(
            &cx,
            &f,
            "binop_to_float_cmp",
            "(op : BinOp)",
            "Option FloatCmp",
        )?);
    }

    // ---- Lowerer::binop (whole function, with its plumbing named)
    {
        let mut f = find::func(&lower, "binop", Some("Lowerer"))?;
        let mut rp = ExprReplacer::new(&[
            ("self.ctx.type_info.ty_pool.get(ty)", "tyv"),
            ("self.var(left).into()", "Side::lhs"),
            ("self.var(right).into()", "Side::rhs"),
            ("self.call_eq_of(false, left, right, ty)", "Instruction::CallEq(false, left, right)"),
            ("self.call_eq_of(true, left, right, ty)", "Instruction::CallEq(true, left, right)"),
            ("self.new_tmp(IrType::Bool)", "IrType::Bool"),
            ("self.lower_type(ty).unwrap()", "lower_type_unwrap(tyv)"),
            ("self.new_tmp(ty)", "ty"),
            ("to.into()", "emitted__"),
        ]);
        rp.visit_block_mut(&mut f.block);
        rp.require("self.ctx.type_info.ty_pool.get(ty)", 3)?;
        rp.require("self.var(left).into()", 1)?;
        rp.require("self.var(right).into()", 1)?;
        rp.require("to.into()", 5)?;
        // `self.emit(I);` / `match binop { … => self.emit(I), … }` statements
        // bind the emitted instruction.
        struct EmitBinder;
        impl VisitMut for EmitBinder {
            fn visit_block_mut(&mut self, b: &mut syn::Block) {
                for s in b.stmts.iter_mut() {
                    if let syn::Stmt::Expr(e, _) = s {
                        let txt = e.to_token_stream().to_string();
                        let is_ctl = matches!(e, syn::Expr::If(_) | syn::Expr::Return(_));
                        if txt.contains("self . emit") && !is_ctl {
                            let new: syn::Stmt = syn::parse_str(&format!(
                                "let emitted__ = {txt};"
                            ))
                            .expect("emit binder parses");
                            *s = new;
                        }
                    }
                }
                syn::visit_mut::visit_block_mut(self, b);
            }
        }
        EmitBinder.visit_block_mut(&mut f.block);
        let mut cx = base_cx();
        cx.methods.insert("emit".into(), Meth::Pure("Lw.emit".into()));
        cx.fallible_fns
            .insert("lower_type_unwrap".into(), ("lower_type_unwrap".into(), true));
        cx.fallible_fns
            .insert("binop_to_int_cmp".into(), ("binop_to_int_cmp".into(), true));
        cx.fallible_fns
            .insert("binop_to_float_cmp".into(), ("binop_to_float_cmp".into(), true));
        cx.paths.insert("Side::lhs".into(), "Side.lhs".into());
        cx.paths.insert("Side::rhs".into(), "Side.rhs".into());
        // lower_type (primitive table) comes first, binop uses it
        let lt = find::func(&lower, "lower_type", Some("Lowerer"))?;
        let ms = find::matches_on(&lt.block, "p");
        if ms.len() != 1 {
            return Err(format!("lower_type: expected one `match p`, found {}", ms.len()));
        }
        let mut m = ms[0].clone();
        // `_ => break 'prim` ↦ not a scalar: panic in the scalar model
        for a in m.arms.iter_mut() {
            if matches!(*a.body, syn::Expr::Break(_)) {
                a.body = Box::new(syn::parse_str("return None").unwrap());
            } else {
                let b = a.body.to_token_stream().to_string();
                a.body = Box::new(syn::parse_str(&format!("Some({b})")).unwrap());
            }
        }
        let mut cxp = base_cx();
        for v in ["Unsigned", "Signed"] {
            cxp.paths.insert(v.into(), format!("IntKind.{v}"));
        }
        // inside lower_type, I8.. and F32/F64 are IntSize / FloatSize
        for v in ["I8", "I16", "I32", "I64"] {
            cxp.paths.insert(v.into(), format!("IntSize.{v}"));
        }
        for v in ["F32", "F64"] {
            cxp.paths.insert(v.into(), format!("FloatSize.{v}"));
        }
        for v in ["U8","U16","U32","U64","I8","I16","I32","I64","F32","F64","Bool","Pointer","Char","Asn"] {
            cxp.paths.insert(format!("IrType::{v}"), format!("IrType.{v}"));
        }
        let body = cxp.m(&syn::Expr::Match(m))?;
        out.push_str(&format!(
            "def lower_type_prim (dbg : Bool) (p : Primitive) : Res (Option IrType) :=\n {body}\n\n"
        ));
        out.push_str(
            "def lower_type_unwrap (dbg : Bool) (t : Ty) : Res IrType :=\n match t with\n | .Primitive p => (do match (← lower_type_prim dbg p) with\n   | some x => pure x\n   | none => Res.panic)\n | _ => Res.panic\n\n",
        );
        out.push_str("def Lw.emit (_self : Unit) (i : Instruction) : Instruction := i\n\n");
        cx.paths.insert("self".into(), "()".into());
        let body = cx.block(&f.block.stmts)?;
        out.push_str(&format!(
            "def lower_binop (dbg : Bool) (binop : BinOp) (tyv : Ty) : Res Instruction :=\n {body}\n\n"
        ));
    }

    // ---- Lowerer::literal, integer arm
    {
        let f = find::func(&lower, "literal", Some("Lowerer"))?;
        let ms = find::matches_on(&f.block, "(k, s)");
        if ms.len() != 1 {
            return Err(format!("literal: expected one `match (k, s)`, found {}", ms.len()));
        }
        let mut cx = base_cx();
        for v in ["Unsigned", "Signed"] {
            cx.paths.insert(v.into(), format!("IntKind.{v}"));
        }
        for v in ["I8", "I16", "I32", "I64"] {
            cx.paths.insert(v.into(), format!("IntSize.{v}"));
        }
        cx.types.insert("_".into(), "_".into());
        let body = cx.m(&syn::Expr::Match(ms[0].clone()))?;
        out.push_str(&format!(
            "def literal_int (dbg : Bool) (x : I64) (k : IntKind) (s : IntSize) : Res IrValue :=\n {body}\n\n"
        ));
    }

    // ---- codegen: cranelift_type, integer_operand, int_cmp, float_cmp
    {
        let mut cx = base_cx();
        let f = find::func(&codegen, "cranelift_type", None)?;
        let mut fb = f.clone();
        let mut rp = ExprReplacer::new(&[("self.isa.pointer_type()", "I64")]);
        rp.visit_block_mut(&mut fb.block);
        out.push_str(&whole_fn(&cx, &fb, "cranelift_type", "(ty : IrType)", "CTy")?);

        let mut f = find::func(&codegen, "integer_operand", None)?;
        let mut rp = ExprReplacer::new(&[
            ("self.module.isa.pointer_type()", "I64"),
            ("x.into_u32()", "x"),
        ]);
        rp.visit_block_mut(&mut f.block);
        cx.paths.insert("val".into(), "val_".into());
        out.push_str(&whole_fn(
            &cx,
            &f,
            "integer_operand",
            "(val_ : IrValue)",
            "Option (CTy × I64)",
        )?);

        for (name, cmpty, ins) in [
            ("int_cmp", "IntCmp", "icmp"),
            ("float_cmp", "FloatCmp", "fcmp"),
        ] {
            let mut f = find::func(&codegen, name, None)?;
            let from = format!("self.ins().{ins}(cc, left, right)");
            let to = format!("clif_{ins}(cc, left, right)");
            let mut rp = ExprReplacer::new(&[(&from, &to)]);
            rp.visit_block_mut(&mut f.block);
            rp.require(&from, 1)?;
            cx.fallible_fns
                .insert(format!("clif_{ins}"), (format!("Clif.{ins}"), false));
            out.push_str(&whole_fn(
                &cx,
                &f,
                name,
                &format!("(left right : CVal) (op : {cmpty})"),
                "CVal",
            )?);
        }
    }

    // ---- codegen: scalar arms of FuncGen::instruction
    {
        let f = find::func(&codegen, "instruction", Some("FuncGen"))?;
        let ms = find::matches_on(&f.block, "instruction");
        if ms.len() != 1 {
            return Err(format!(
                "FuncGen::instruction: expected one `match instruction`, found {}",
                ms.len()
            ));
        }
        let m = &ms[0];
        let arms: [(&str, &str); 10] = [
            ("IntCmp", "(cmp : IntCmp) (left right : CVal)"),
            ("FloatCmp", "(cmp : FloatCmp) (left right : CVal)"),
            ("Not", "(val_ : CVal)"),
            ("Negate", "(val_ : CVal)"),
            ("Add", "(left right : CVal)"),
            ("Sub", "(left right : CVal)"),
            ("Mul", "(left right : CVal)"),
            ("Div", "(signed : Bool) (left right : CVal)"),
            ("FDiv", "(left right : CVal)"),
            ("Mod", "(signed : Bool) (left right : CVal)"),
        ];
        for (variant, params) in arms {
            let arm = find::arm_for(m, variant)?;
            let mut body = (*arm.body).clone();
            // name the plumbing
            struct Ins;
            impl VisitMut for Ins {
                fn visit_expr_mut(&mut self, e: &mut syn::Expr) {
                    syn::visit_mut::visit_expr_mut(self, e);
                    if let syn::Expr::MethodCall(mc) = e {
                        let recv = mc.receiver.to_token_stream().to_string().replace(' ', "");
                        if recv == "self.ins()" {
                            let args: Vec<String> = mc
                                .args
                                .iter()
                                .map(|a| a.to_token_stream().to_string())
                                .collect();
                            let new = format!("clif_{}({})", mc.method, args.join(", "));
                            *e = syn::parse_str(&new).expect("clif call parses");
                        }
                    }
                }
            }
            Ins.visit_expr_mut(&mut body);
            let mut cx = base_cx();
            cx.paths.insert("self".into(), "()".into());
            cx.paths.insert("to".into(), "()".into());
            cx.paths.insert("val".into(), "val_".into());
            cx.methods.insert("operand".into(), Meth::Pure("Cg.operand'".into()));
            cx.methods.insert("variable".into(), Meth::Pure("Cg.variable'".into()));
            cx.methods.insert("def".into(), Meth::Fallible("Cg.def'".into()));
            cx.methods.insert("int_cmp".into(), Meth::FallibleDbg("int_cmp'".into()));
            cx.methods.insert("float_cmp".into(), Meth::FallibleDbg("float_cmp'".into()));
            for op in [
                "iadd", "isub", "imul", "sdiv", "udiv", "srem", "urem", "ineg",
                "fadd", "fsub", "fmul", "fdiv", "fneg",
            ] {
                cx.fallible_fns
                    .insert(format!("clif_{op}"), (format!("Clif.{op}"), false));
            }
            cx.fallible_fns
                .insert("clif_icmp_imm".into(), ("Clif.icmp_imm".into(), false));
            cx.paths.insert("IntCC::Equal".into(), "IntCC.Equal".into());
            // the arm body is a block whose last statement may end in `;`
            let stmts = match &body {
                syn::Expr::Block(b) => {
                    let mut s = b.block.stmts.clone();
                    if let Some(syn::Stmt::Expr(e, semi)) = s.last_mut() {
                        let _ = e;
                        *semi = None;
                    }
                    s
                }
                other => vec![syn::Stmt::Expr(other.clone(), None)],
            };
            let body = cx.block(&stmts)?;
            out.push_str(&format!(
                "def cg_{variant} (dbg : Bool) {params} : Res CVal :=\n {body}\n\n"
            ));
        }
    }

    out.push_str(&footer("OpTables"));
    // helper shims live in the model; the generated text refers to them
    Ok(out
        .replace("Cg.operand' ()", "Cg.operand")
        .replace("Cg.variable' ()", "Cg.variable_")
        .replace("Cg.def' ()", "Cg.def_")
        .replace("int_cmp' dbg ()", "int_cmp dbg")
        .replace("float_cmp' dbg ()", "float_cmp dbg"))
}

pub fn evalarms(repo: &Path) -> Result<String, String> {
    let eval = find::parse(repo, "src/lir/eval.rs")?;
    let value = find::parse(repo, "src/lir/value.rs")?;
    let mut out = header("EvalArms", &["src/lir/eval.rs", "src/lir/value.rs"]);
    out.push_str("variable [FloatOps]\n\n");
    // (round 6) `f32::to_bits` / `f64::to_bits` have a meaning: the bit pattern as an unsigned
    // integer, WITHOUT any IEEE meaning.  An equality arm written over `to_bits()` therefore becomes
    // a Lean definition (bit equality) for which `eq_ok` / `eval_FloatCmp_agrees` are false at
    // +0.0/-0.0 and NaN (`Props/C20: bit_eq_is_not_fcmp_eq`), instead of an extraction failure that
    // leaves every theorem of the module unchecked.
    out.push_str("/-- `f32::to_bits` / `f64::to_bits`: the bit pattern as an unsigned integer. -/\nclass RToBits (α : Type) (β : outParam Type) where\n  to_bits : α → β\ninstance : RToBits F32 U32 := ⟨fun x => ⟨x.bits⟩⟩\ninstance : RToBits F64 U64 := ⟨fun x => ⟨x.bits⟩⟩\n\n");

    let mut cx = base_cx();
    cx.methods
        .insert("to_bits".into(), Meth::Pure("RToBits.to_bits".into()));
    // value.rs uses `IrValue::*` / `Self::*` / bare variants
    for v in [
        "Bool", "U8", "U16", "U32", "U64", "I8", "I16", "I32", "I64", "F32",
        "F64", "Char", "Asn", "Pointer",
    ] {
        cx.paths.insert(format!("IrValue::{v}"), format!("IrValue.{v}"));
        cx.paths.insert(format!("Self::{v}"), format!("IrValue.{v}"));
        cx.paths.insert(v.into(), format!("IrValue.{v}"));
    }

    // ---- accessors
    for (name, ret) in [
        ("as_bool", "Bool"),
        ("as_u64", "U64"),
        ("as_i64", "I64"),
        ("as_f64", "F64"),
        ("switch_on", "U32"),
    ] {
        let f = find::func(&value, name, Some("IrValue"))?;
        out.push_str(
            &whole_fn(&cx, &f, &format!("IrValue.{name}"), "(self : IrValue)", ret)?,
        );
        cx.methods
            .insert(name.into(), Meth::FallibleDbg(format!("IrValue.{name}")));
    }
    // ---- PartialEq for IrValue
    {
        let f = find::func(&value, "eq", Some("PartialEq for IrValue"))?;
        out.push_str(&whole_fn(
            &cx,
            &f,
            "IrValue.eq",
            "(self other : IrValue)",
            "Bool",
        )?);
        out.push_str("/-- `==` on `IrValue` is the generated `PartialEq` (it performs no arithmetic, so the profile flag is immaterial). -/\ninstance instREqIrValue : REq IrValue := ⟨IrValue.eq false⟩\n\n@[reducible] def Ev.ret {α : Type} (a : α) : α := a\n\n");
    }

    // ---- the scalar arms of the evaluator loop
    let f = find::func(&eval, "eval", None)?;
    let ms = find::matches_on(&f.block, "instruction");
    if ms.len() != 1 {
        return Err(format!(
            "eval: expected one `match instruction`, found {}",
            ms.len()
        ));
    }
    let m = &ms[0];
    cx.call_rewrites.insert("eval_operand".into(), CallRw::Arg(1));
    cx.methods.insert("insert".into(), Meth::Pure("Ev.insert".into()));
    cx.paths.insert("val".into(), "val_".into());
    let arms: [(&str, &str); 10] = [
        ("IntCmp", "(cmp : IntCmp) (left right : IrValue)"),
        ("FloatCmp", "(cmp : FloatCmp) (left right : IrValue)"),
        ("Not", "(val_ : IrValue)"),
        ("Negate", "(val_ : IrValue)"),
        ("Add", "(left right : IrValue)"),
        ("Sub", "(left right : IrValue)"),
        ("Mul", "(left right : IrValue)"),
        ("Div", "(left right : IrValue)"),
        ("FDiv", "(left right : IrValue)"),
        ("Mod", "(left right : IrValue)"),
    ];
    for (variant, params) in arms {
        let arm = find::arm_for(m, variant)?;
        let stmts = match &*arm.body {
            syn::Expr::Block(b) => {
                let mut s = b.block.stmts.clone();
                if let Some(syn::Stmt::Expr(_, semi)) = s.last_mut() {
                    *semi = None;
                }
                s
            }
            other => vec![syn::Stmt::Expr(other.clone(), None)],
        };
        let body = cx.block(&stmts)?;
        out.push_str(&format!(
            "def eval_{variant} (dbg : Bool) {params} : Res IrValue :=\n {body}\n\n"
        ));
    }
    out.push_str(&footer("EvalArms"));
    // `vars.insert(to.clone(), v)` ↦ `v`; `left == right` on IrValue uses the
    // generated PartialEq
    Ok(out.replace("(Ev.insert vars to_ ", "(Ev.ret "))
}
