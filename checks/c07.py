"""C07 — ill-typed scripts never compile."""
import json
import common

PROPS = "RotoV.Props.C07"
# the rule "recursive constants" (value_cycle.rs): own module, so that a change of the algorithm breaks exactly its obligations
PROPS_CYCLE = "RotoV.Props.C07Cycle"
MODULES_CYCLE = [
    "RotoV.Model.TcValueCycle", "RotoV.Model.TcValueCyclePinned", "RotoV.Lemmas.TcValueCycle",
    "RotoV.Lemmas.TcValueCycleTarjan", "RotoV.Lemmas.TcValueCycleProg", "RotoV.Model.Tarjan", "RotoV.Lemmas.Tarjan", "RotoV.Lemmas.TarjanCtx", "RotoV.Lemmas.TarjanNoPanic",
]
# the rule "unknown or out-of-scope name" in packages of several modules: own module, tied to resolve_name by regenerated facts
PROPS_SCOPE = "RotoV.Props.C07Scope"
MODULES_SCOPE = ["RotoV.Model.TcModules", "RotoV.Lemmas.TcModules"]
# rules special-cased for a built-in type (`?` under the built-in Option, `+` on the built-in List) and the `to_string`
# obligation of f-string parts (resolve_obligations): own module, decisions parameterised by regenerated facts
PROPS_BUILTIN = "RotoV.Props.C07Builtin"
MODULES_BUILTIN = ["RotoV.Model.TcBuiltin", "RotoV.Lemmas.TcBuiltin"]
MODULES = [
    "RotoV.Lemmas.TcRules", "RotoV.Lemmas.UnifyTc", "RotoV.Lemmas.Typing", "RotoV.Lemmas.TypingAux", "RotoV.Lemmas.TypingMono", "RotoV.Lemmas.TypingProg",
    "RotoV.Model.Typing", "RotoV.Model.TcRules", "RotoV.Model.UnifyTc",
    "RotoV.Model.TcInfer", "RotoV.Model.TcInferPinned", "RotoV.Lemmas.TcInferUnify", "RotoV.Lemmas.TcInferSound", "RotoV.Lemmas.TcInferSoundMain", "RotoV.Lemmas.TcInferMethod", "RotoV.Lemmas.TcInferObls", "RotoV.Lemmas.TcInferProg", "RotoV.Model.TcInferSem",
]


def search(ctx):
    """A theorem or a correspondence broke: hunt for a script that breaks a
    typing rule and compiles anyway (bigger run of the property's own
    quantifier and of the tables, another seed)."""
    if ctx.build_harness("c07"):
        ctx.harness("c07", ["run", ctx.seed + 7919, "search"], timeout=3000, name="search:c07")


def run(ctx):
    ctx.extract(["c07facts", "c07arms", "c07cycle"])
    parts = []
    for module, extra in ((PROPS, MODULES), (PROPS_CYCLE, MODULES_CYCLE), (PROPS_SCOPE, MODULES_SCOPE), (PROPS_BUILTIN, MODULES_BUILTIN)):
        for k in ("theorems", "nonvacuity_examples", "axioms"):
            ctx.coverage.pop(k, None)
        ctx.prove(module, extra_modules=extra)
        if ctx.coverage.get("theorems"):  # prove() overwrites these: report both modules
            parts.append({k: ctx.coverage.get(k) for k in ("theorems", "nonvacuity_examples", "axioms")})
    if parts:
        ctx.coverage["theorems"] = [t for p in parts for t in p["theorems"]]
        ctx.coverage["nonvacuity_examples"] = sum(p["nonvacuity_examples"] or 0 for p in parts)
        ctx.coverage["axioms"] = {k: v for p in parts for k, v in (p["axioms"] or {}).items()}
    if ctx.build_harness("c07"):
        ctx.harness("c07", ["run", ctx.seed, ctx.tier], timeout=3000)
    ctx.trusted += [
        "the documented typing rules as written in RotoV/Model/Typing.lean (the declarative checker D with flexible "
        "types: it rejects only scripts that have no typing; what it accepts is not claimed to be well-typed)",
        "hand-written models (TcRules: binop/Negate/Not acceptance, match_expr bookkeeping, insert_declaration; "
        "Unify: unify_inner over the union-find store) are tied to src/typechecker by differential runs "
        "(testing): whole operator table, random match heads, random unification scripts through the hook "
        "verif_hooks::c07::unify_script; path compression of UnionFind::find and the generic substitution of "
        "record_fields are not modelled",
        "SAMPLED, not proved: the quantifier over programs (generated well-typed scripts + one type-breaking edit); "
        "inference (TypeChecker::expr): infer_sound_partial covers function bodies of the core fragment modulo "
        "existence of a solution of the final store; the other constructs are covered by the differential run of "
        "the model TcInfer.checkProgM against the real checker only",
        "the translator target c07arms (call skeleton of TypeChecker::expr & co.: which helper, which order, which "
        "expected type; locals alpha-renamed) and its pinned copy Model/TcInferPinned.lean: the claim that "
        "Model/TcInfer.lean does what those arms do rests on the differential run (phase infer), which is testing",
        "value_cycle.rs: the theorems of Props/C07Cycle are about the hand-written model Model/Tarjan.lean; it is tied to the "
        "source by the regenerated statement skeleton (target c07cycle, pinned copy Model/TcValueCyclePinned.lean) and by the "
        "differential run of phase cyc (real tarjan components and find_compilation_order outcome = the model's on every collected "
        "graph); that the collected reference graph contains every use of a constant / function is tested (six syntactic positions), not proved",
        "packages of several modules: the scoping rules are written down in Model/TcModules.lean (what a path denotes at a site; "
        "imports; the package judge = every import and use denotes what it was written for AND the declarative checker accepts the "
        "flattened package; item names unique in the package, so a local or an import never shadows an item); that the type checker "
        "enforces them is TESTED (phases mods / mods-gen), only the clause `a path segment after the first is looked up among the "
        "declarations of the scope, never its imports` is tied to the source by regenerated facts (order of consultation in "
        "ScopeGraph::resolve_name, values of `recurse` in resolve_module_part_of_path)",
        "built-in names: that a type the script declares resolves to a name outside the GLOBAL scope and a built-in one to a GLOBAL "
        "name is TESTED (phase shadow: every representative that declares a type x every built-in type name it does not mention; a "
        "quarter of the generated mutants has one declared type spelled as a built-in); Model/TcBuiltin.lean's decisions (`?`, list `+`, "
        "signature comparison of resolve_obligations) follow regenerated facts (feature detection on the token text of the arms)",
        "registered types: ONE runtime with seven registered types (one per shape of `to_string` signature), scripts by position of the "
        "f-string part (phase tostr); get_method and unification of ground registered types are not modelled (on ground types unification "
        "is taken to be equality)",
        "Runtime::new() (no registered types / context) for every other phase",
    ]
    return ctx.finish(
        level="proof",
        rule="judged mutants: one type-breaking edit (24 kinds) of a generated well-typed script that compiles, "
             "counted only if the Lean declarative checker rejects it; a class is distinct by (edit kind, rule "
             "broken, category of the reported type error). Tables: every (operator, left shape, right shape) "
             "of the operator table (7 536 rows) by outcome; match heads by (variants, arms, verdict); "
             "unification scripts by (#ok, #fail, #variables); inference model vs checker by (representative | edit "
             "kind, verdict incl. class of report); value cycles by (shape of the reference cycle, closing reference, rank "
             "order of the item names | random: simple cycle or knot, size of the component, kind of the first-ranked item, verdict); "
             "type cycles by (shape, closing mention, wrapper, record or enum first); "
             "shadowed built-in names by (built-in name, representative, verdict); registered types by (shape of to_string signature, "
             "position of the f-string part | number of call arguments, verdict)",
        search=search,
    )


def replay(ctx, data):
    if data.get("kind") != "failing-input":
        print(json.dumps(data, indent=1))
        return 1
    if not ctx.build_harness("c07"):
        return 1
    rep = ctx.harness("c07", ["replay", json.dumps(data["input"])])
    return 1 if rep and rep.get("impl_violations") else 0
