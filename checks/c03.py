"""C03 — every host value a script owns is released exactly once on every path."""
import json
import os
import common

PROPS = "RotoV.Props.C03"
PROPS_GLUE = "RotoV.Props.C03Glue"
PROPS_VARIANT = "RotoV.Props.C03Variant"
PROPS_RUNTIME = "RotoV.Props.C03Runtime"
GEN = os.path.join(common.LEAN, "RotoV", "Generated", "C03Dumps.lean")


def emit_dumps(ctx):
    """Regenerate Generated/C03Dumps.lean: the *current* tree's MIR of the witness
    scripts (through the hook) as Lean values, with the untrusted certificates."""
    ok, out = ctx.lake_build(["rotov-driver"])
    if not ok:
        ctx.obligation("lake:rotov-driver", False, out[-2000:])
        return False
    exe = os.path.join(common.TARGET, "debug", "c03")
    with common.Lock("lake"):
        rc, out = common.run([exe, "emit-lean", GEN], cwd=common.VERIF, timeout=300)
    ok = rc == 0 and "EXTRACT-OK C03Dumps" in out
    ctx.obligation("extract:C03Dumps", ok, out[-1500:])
    return ok


def search(ctx):
    if ctx.build_harness("c03"):
        ctx.harness("c03", ["run", ctx.seed + 7919, "thorough", ctx.repo], timeout=3000, name="search:c03")


def run(ctx):
    # the per-field loops of drops.rs / clones.rs as they are written today
    # and the ErasedList functions that receive an element by raw pointer (src/value/list.rs),
    # with the function every script-visible list method hands its DynVal to (src/runtime/basic.rs)
    # and the ownership-relevant decisions of the MIR -> LIR lowering of a block (src/lir/lower.rs)
    # `glueloopsdrv`: what the driver's glue model runs on — the same text as `glueloops`, or, when
    # that extraction fails, the definitions last verified, so that the driver still builds and the
    # search for a failing input does not depend on a driver binary left over from an earlier run
    ctx.extract(["glueloops", "listown", "mirlower", "glueloopsdrv"])
    built = ctx.build_harness("c03")
    if built:
        emit_dumps(ctx)
    theorems, examples, axioms = [], 0, {}
    for mod, extra in [
        (PROPS, ["RotoV.Lemmas.Mir", "RotoV.Model.Mir", "RotoV.Model.MirFrozen", "RotoV.Generated.C03Dumps"]),
        (PROPS_GLUE, ["RotoV.Lemmas.Glue", "RotoV.Model.Glue", "RotoV.Generated.GlueLoops"]),
        (PROPS_VARIANT, ["RotoV.Lemmas.MirVariant", "RotoV.Model.MirVariant"]),
        (PROPS_VARIANT + "Now", ["RotoV.Generated.C03Dumps"]),
        (PROPS_RUNTIME, ["RotoV.Model.ListOwn"]),
        (PROPS_RUNTIME + "Now", ["RotoV.Generated.ListOwn"]),
        ("RotoV.Props.C03Lower", ["RotoV.Model.MirLower", "RotoV.Generated.MirLower"]),
    ]:
        ctx.prove(mod, extra_modules=extra)
        theorems += ctx.coverage.get("theorems", [])
        examples += ctx.coverage.get("nonvacuity_examples", 0)
        axioms.update(ctx.coverage.get("axioms", {}))
        for k in ("theorems", "nonvacuity_examples", "axioms"):
            ctx.coverage.pop(k, None)
    ctx.coverage["theorems"] = theorems
    ctx.coverage["nonvacuity_examples"] = examples
    ctx.coverage["axioms"] = axioms
    if built:
        ctx.harness("c03", ["run", ctx.seed, ctx.tier, ctx.repo], timeout=3000)
    ctx.trusted += [
        "the hook roto::verif_hooks::c03 dumps the MIR the later stages consume, and the needs_drop bit is the LIR lowerer's own (Lowerer::needs_drop)",
        "ownership reading of MIR instructions (DESIGN §10): call arguments are consumed, Clone/Constant/Context/call results/String literals create, "
        "Move transfers; validated by the measured oracle (Tk counters, allocation balance) on every generated program",
        "drop / clone glue (RotoV/Model/Glue.lean): the per-field loops, call_drop_of, call_clone_function, the arms of needs_drop / needs_clone / "
        "get_runtime_drop / get_runtime_clone, the dispatch of generate_drop_body / generate_clone_body and the element-vtable conditions of call_runtime "
        "are translated from drops.rs / clones.rs / lower.rs on every run (statement -> Step / CStmt / arm mapping in extract/src/targets/c03.rs); "
        "the discriminant switch with the last variant as default, layout_of and LayoutBuilder are a hand model, "
        "compared with the generated drop functions in the real LIR for every generated declaration; the reference placement of leaves is the one of "
        "Lowerer::location (fresh builder, tag first, every field added in order); String and List are CloneDrop registered types",
        "the program quantifier is sampled: ownCheck and varCheck run on the compiler's actual output for generated programs and the repository's scripts",
        "variant layer (RotoV/Model/MirVariant.lean): a read `clone x.V.i` of a tracked variable is wrong iff x holds another variant of its type "
        "(variant numbers beyond the type's variants, which only the oracle of the semantics can produce, stand for no value); validated by the "
        "measured oracle (poisoned ids: a clone out of a dropped / replaced value counts as use after drop)",
        "runtime boundary (RotoV/Model/ListOwn.lean): the statement -> OStmt mapping of the translator target `listown` (extract/src/targets/c03.rs); "
        "RawList::push / contains / index are classified by what they do with the pointer (copy into the list and count / only eq_fn)",
    ]
    return ctx.finish(
        level="proof",
        rule="a class is distinct by (verdict, constructs used in main: while/for/match/guards/return/accept/reject/?/&&/||/record/enum/"
             "f-string/constant/list/wildcard/field-assign/push/contains/index/concat/swap/guards that assign with counts capped at 3); every program runs on 32 steering inputs "
             "(n,m in {0,1,2,5}, c in {false,true}), twice where balanced (second call measures heap allocations); corpus items count once; "
             "a script over the zero-sized token (every class representative has such a twin; every third generated program) is a class of its own (zst:...); "
             "a glue program is distinct by the field pattern of its declarations (size class of each non-droppable field, D = droppable leaf, "
             "O = Tk?, R/E = nested record/enum, order kept)",
        search=search,
    )


def replay(ctx, data):
    if data.get("kind") != "failing-input":
        print(json.dumps(data, indent=1))
        return 1
    if not ctx.build_harness("c03"):
        return 1
    inp = dict(data["input"])
    inp.setdefault("key", data.get("key", ""))
    rep = ctx.harness("c03", ["replay", json.dumps(inp)])
    # the defect replays iff the same construct class is reported again (for an unclassified
    # rejection, `other:<block>:<reason>`, the checker may name another of several offending
    # instructions first: any unclassified rejection with a measured imbalance counts)
    def fam(k):
        return "other" if (k or "").startswith("other:") else k
    again = [v for v in (rep or {}).get("impl_violations", [])
             if fam(v.get("key")) == fam(data.get("key"))
             and (data.get("input", {}).get("confirmed") is False or v.get("input", {}).get("confirmed") is not False)]
    for v in again[:1]:
        print(f"[C03] replayed: {v.get('what')}")
    return 1 if again else 0
