"""Shared machinery of `./check`: extraction, Lean build + axiom audit, harness
build/run, search mode, known findings, evidence.  See DESIGN.md §1.1."""

import fcntl
import json
import os
import re
import subprocess
import sys
import time

VERIF = os.path.dirname(os.path.dirname(os.path.abspath(__file__)))
LEAN = os.path.join(VERIF, "lean")
TARGET = os.path.join(VERIF, "target")
ALLOWED_AXIOMS = {"propext", "Classical.choice", "Quot.sound"}
FORBIDDEN = re.compile(
    r"\bsorry\b|\badmit\b|^\s*axiom\s|native_decide|bv_decide|implemented_by|\bunsafe\s|maxHeartbeats\s+0"
)


def strip_lean_comments(text):
    out, i, depth = [], 0, 0
    while i < len(text):
        if text.startswith("/-", i):
            depth += 1
            i += 2
        elif depth and text.startswith("-/", i):
            depth -= 1
            i += 2
        elif depth:
            if text[i] == "\n":
                out.append("\n")
            i += 1
        elif text.startswith("--", i):
            while i < len(text) and text[i] != "\n":
                i += 1
        else:
            out.append(text[i])
            i += 1
    return "".join(out)


class Lock:
    def __init__(self, name):
        os.makedirs(TARGET, exist_ok=True)
        self.path = os.path.join(TARGET, f".{name}.lock")

    def __enter__(self):
        self.f = open(self.path, "w")
        fcntl.flock(self.f, fcntl.LOCK_EX)

    def __exit__(self, *a):
        fcntl.flock(self.f, fcntl.LOCK_UN)
        self.f.close()


# Each property has its own driver executable (lean/Driver/MainCXX.lean), so that a
# check's Lean build depends only on the Generated modules of that property: a
# failed extraction left behind by (or belonging to) another property cannot break
# this one.  `Ctx.__init__` selects it; the all-in-one `rotov-driver` remains for setup.
DRIVER_NAME = "rotov-driver"


def env():
    e = dict(os.environ)
    e["CARGO_NET_OFFLINE"] = "true"
    e["CARGO_TARGET_DIR"] = TARGET
    e.setdefault("RUST_BACKTRACE", "0")
    e["ROTOV_DRIVER"] = os.path.join(LEAN, ".lake", "build", "bin", DRIVER_NAME)
    return e


def run(cmd, cwd=None, timeout=None, input=None):
    try:
        p = subprocess.run(
            cmd, cwd=cwd, env=env(), timeout=timeout, input=input,
            stdout=subprocess.PIPE, stderr=subprocess.STDOUT, text=True, errors="replace",
        )
        return p.returncode, p.stdout
    except subprocess.TimeoutExpired as e:
        out = e.stdout or ""
        if isinstance(out, bytes):
            out = out.decode(errors="replace")
        return 124, out + "\n[timeout]"


class Ctx:
    def __init__(self, pid, tier, seed):
        global DRIVER_NAME
        if os.path.exists(os.path.join(LEAN, "Driver", f"Main{pid.upper()}.lean")):
            DRIVER_NAME = f"rotov-driver-{pid.lower()}"
        self.pid = pid
        self.tier = tier
        self.seed = seed
        self.repo = os.environ.get("ROTO_REPO", "/repo")
        self.t0 = time.time()
        self.obligations = []  # (name, ok, detail)
        self.broken = []  # names of broken proof obligations / correspondences
        self.impl_violations = []  # {"what","key","input"}
        self.coverage = {}
        self.samples = []
        self.evaluations = 0
        self.classes = set()
        self.histograms = {}
        self.notes = []
        self.trusted = [
            "Lean 4.33 kernel; axioms limited to propext, Classical.choice, Quot.sound",
            "translator /verif/extract (syn-based, declared subset) and RustStd vocabulary",
            "correspondence harness /verif/harness, its generators and canonicalisers, hooks (feature verif-hooks)",
        ]
        self.checker_cmds = []
        self.log_lines = []

    # ------------------------------------------------------------------ util
    def log(self, *a):
        s = " ".join(str(x) for x in a)
        self.log_lines.append(s)
        print(f"[{self.pid}] {s}", flush=True)

    def obligation(self, name, ok, detail=""):
        self.obligations.append((name, bool(ok), detail))
        if not ok:
            self.broken.append(name)
            self.log(f"OBLIGATION BROKEN: {name}: {detail[:300]}")

    # -------------------------------------------------------------- extract
    def extract(self, targets):
        """Regenerate Generated/*.lean from the repo's working tree."""
        with Lock("cargo"):
            rc, out = run(
                ["cargo", "build", "--offline", "--quiet"],
                cwd=os.path.join(VERIF, "extract"), timeout=900,
            )
        if rc != 0:
            self.obligation("build:extract", False, out[-2000:])
            return False
        gen = os.path.join(LEAN, "RotoV", "Generated")
        with Lock("lake"):
            rc, out = run(
                [os.path.join(TARGET, "debug", "rotov-extract"), self.repo, gen] + targets,
                timeout=300,
            )
        ok = True
        if not hasattr(self, "extracted"):
            self.extracted = set()
        self.extracted.update(targets)
        for line in out.splitlines():
            if line.startswith("EXTRACT-OK"):
                self.obligation("extract:" + line.split()[1], True)
            elif line.startswith("EXTRACT-FAIL"):
                parts = line.split(" ", 2)
                self.obligation("extract:" + parts[1], False, parts[2] if len(parts) > 2 else "")
                ok = False
        if rc not in (0, 2):
            self.obligation("extract:run", False, out[-1000:])
            ok = False
        return ok

    def generated_imports(self, modules):
        """Names X of every RotoV.Generated.X the given modules import, transitively,
        through the RotoV sources."""
        seen, todo, gen = set(), list(modules), set()
        while todo:
            m = todo.pop()
            if m in seen:
                continue
            seen.add(m)
            if m.startswith("RotoV.Generated."):
                gen.add(m.split(".", 2)[2])
                continue
            path = os.path.join(LEAN, *m.split(".")) + ".lean"
            try:
                text = open(path).read()
            except OSError:
                continue
            for im in re.findall(r"^\s*import\s+(\S+)", text, re.M):
                if im.startswith(("RotoV.", "Driver.")):
                    todo.append(im)
        return gen

    def ensure_generated(self, modules):
        """A theorem is only re-checked against the source as it is NOW if every
        generated module below it was regenerated in THIS run: regenerate those
        that the check did not ask for itself (they may be stale - written by
        another property's run, possibly on another tree)."""
        need = self.generated_imports(modules)
        if not need:
            return True
        rc, out = run([os.path.join(TARGET, "debug", "rotov-extract"), "--outputs"], timeout=60)
        owner = {}
        for line in out.splitlines():
            parts = line.split()
            if len(parts) == 2:
                owner.setdefault(parts[1], parts[0])
        done = getattr(self, "extracted", set())
        missing = sorted({owner[n] for n in need if n in owner and owner[n] not in done})
        if missing:
            return self.extract(missing)
        return True

    # ----------------------------------------------------------------- lean
    def theorem_names(self, module):
        """(qualified theorem names, example count) declared in a Props module."""
        path = os.path.join(LEAN, *module.split(".")) + ".lean"
        text = strip_lean_comments(open(path).read())
        ns, names, examples = [], [], 0
        for line in text.splitlines():
            m = re.match(r"\s*namespace\s+(\S+)", line)
            if m:
                ns.append(m.group(1))
                continue
            m = re.match(r"\s*end\s+(\S+)", line)
            if m and ns and ns[-1] == m.group(1):
                ns.pop()
                continue
            m = re.match(r"\s*(?:@\[[^\]]*\]\s*)*(?:private\s+|protected\s+)?theorem\s+(\S+)", line)
            if m:
                names.append(".".join(ns + [m.group(1)]))
            if re.match(r"\s*example\b", line):
                examples += 1
        return names, examples

    def lean_files_clean(self, modules):
        """No sorry / admit / axiom / native_decide … outside comments."""
        ok = True
        for module in modules:
            path = os.path.join(LEAN, *module.split(".")) + ".lean"
            if not os.path.exists(path):
                continue
            text = strip_lean_comments(open(path).read())
            for i, line in enumerate(text.splitlines(), 1):
                if FORBIDDEN.search(line):
                    self.obligation(f"grep:{module}:{i}", False, line.strip())
                    ok = False
        return ok

    def lake_build(self, targets, timeout=3000):
        targets = [DRIVER_NAME if t == "rotov-driver" else t for t in targets]
        with Lock("lake"):
            rc, out = run(["lake", "build"] + targets, cwd=LEAN, timeout=timeout)
        return rc == 0, out

    def prove(self, props_module, extra_modules=(), extra_targets=("rotov-driver",)):
        """Build the property's theorem module against the regenerated
        definitions and audit the axioms of every theorem in it."""
        names, examples = self.theorem_names(props_module)
        self.ensure_generated([props_module] + [t for t in extra_targets if t.startswith("RotoV.")]
                              + ["Driver.Main" + DRIVER_NAME.split("-")[-1].upper()])
        self.lean_files_clean([props_module] + list(extra_modules))
        ok, out = self.lake_build([props_module] + list(extra_targets))
        self.checker_cmds.append(f"cd /verif/lean && lake build {props_module} " + " ".join(
            DRIVER_NAME if t == "rotov-driver" else t for t in extra_targets))
        if not ok:
            # which theorems failed?
            errs = re.findall(r"error: ([^\s:]+\.lean):(\d+):(\d+): (.*)", out)
            failing = set()
            for f, ln, _c, msg in errs:
                failing.add(self._theorem_at(f, int(ln)) or f"{f}:{ln}")
            if not failing:
                failing.add("lake build " + props_module)
            for n in names:
                why = "fails to check" if n in failing else "not checked: module did not build"
                self.obligation("theorem:" + n, False, why + "; errors at: " + "; ".join(sorted(failing))[:400])
            self.obligation("lake:" + props_module, False, out[-3000:])
            return False
        # axiom audit: a generated file with `#print axioms` for every theorem
        audit_mod = props_module.replace(".Props.", ".Audit.")
        audit_path = os.path.join(LEAN, *audit_mod.split(".")) + ".lean"
        os.makedirs(os.path.dirname(audit_path), exist_ok=True)
        body = f"import {props_module}\n" + "".join(f"#print axioms {n}\n" for n in names)
        if not os.path.exists(audit_path) or open(audit_path).read() != body:
            open(audit_path, "w").write(body)
        with Lock("lake"):
            rc, aout = run(["lake", "env", "lean", audit_path], cwd=LEAN, timeout=1200)
        self.checker_cmds.append(f"cd /verif/lean && lake env lean {os.path.relpath(audit_path, LEAN)}  # #print axioms")
        audited = {}
        for m in re.finditer(r"'([^']+)' depends on axioms: \[([^\]]*)\]", aout.replace("\n", " ")):
            audited[m.group(1)] = {a.strip() for a in m.group(2).split(",") if a.strip()}
        for m in re.finditer(r"'([^']+)' does not depend on any axioms", aout):
            audited[m.group(1)] = set()
        all_ok = rc == 0
        for n in names:
            if n not in audited:
                self.obligation("theorem:" + n, False, "no axiom report: " + aout[-400:])
                all_ok = False
            else:
                bad = audited[n] - ALLOWED_AXIOMS
                self.obligation("theorem:" + n, not bad, "axioms: " + ", ".join(sorted(audited[n])))
                all_ok = all_ok and not bad
        self.coverage["theorems"] = names
        self.coverage["nonvacuity_examples"] = examples
        self.coverage["axioms"] = {n: sorted(a) for n, a in audited.items()}
        if self.tier == "thorough":
            with Lock("lake"):
                rc, cout = run(["lake", "env", "leanchecker", props_module], cwd=LEAN, timeout=3000)
            self.checker_cmds.append(f"cd /verif/lean && lake env leanchecker {props_module}")
            self.obligation("leanchecker:" + props_module, rc == 0, cout[-500:])
            all_ok = all_ok and rc == 0
        return all_ok

    def _theorem_at(self, relfile, line):
        path = relfile if os.path.isabs(relfile) else os.path.join(LEAN, relfile)
        try:
            lines = open(path).read().splitlines()
        except OSError:
            return None
        ns = []
        found = None
        for i, l in enumerate(lines[:line], 1):
            m = re.match(r"\s*namespace\s+(\S+)", l)
            if m:
                ns.append(m.group(1))
            m = re.match(r"\s*end\s+(\S+)", l)
            if m and ns and ns[-1] == m.group(1):
                ns.pop()
            m = re.match(r"\s*(?:@\[[^\]]*\]\s*)*(?:private\s+)?(theorem|def|lemma|instance|example)\s*(\S*)", l)
            if m:
                found = ".".join(ns + [m.group(2)]) if m.group(1) == "theorem" else None
        return found

    # -------------------------------------------------------------- harness
    def build_harness(self, bin_name):
        hdir = os.path.join(VERIF, "harness")
        tmpl = open(os.path.join(hdir, "Cargo.toml.in")).read().replace("@ROTO_REPO@", self.repo)
        cpath = os.path.join(hdir, "Cargo.toml")
        if not os.path.exists(cpath) or open(cpath).read() != tmpl:
            open(cpath, "w").write(tmpl)
        lock = os.path.join(hdir, "Cargo.lock")
        if not os.path.exists(lock):
            import shutil
            shutil.copy(os.path.join(self.repo, "Cargo.lock"), lock)
        with Lock("cargo"):
            rc, out = run(["cargo", "build", "--offline", "--quiet", "--bin", bin_name], cwd=hdir, timeout=3000)
        if rc != 0:
            self.obligation(f"build:harness:{bin_name}", False, out[-3000:])
            return False
        return True

    def harness(self, bin_name, args, timeout=3000, name=None):
        """Run a harness binary; fold its report into this context.
        Returns the parsed report (or None)."""
        name = name or f"correspondence:{bin_name}"
        exe = os.path.join(TARGET, "debug", bin_name)
        rc, out = run([exe] + [str(a) for a in args], cwd=VERIF, timeout=timeout)
        rep = None
        for line in out.splitlines():
            if line.startswith("HARNESS-REPORT "):
                rep = json.loads(line[len("HARNESS-REPORT "):])
        if rep is None:
            self.obligation(name, False, f"harness ended rc={rc} without a report: " + out[-1500:])
            return None
        self.evaluations += rep.get("evaluations", 0)
        self.classes.update(rep.get("classes", {}).keys())
        for k, v in rep.get("histograms", {}).items():
            h = self.histograms.setdefault(k, {})
            for b, n in v.items():
                h[b] = h.get(b, 0) + n
        self.samples.extend(rep.get("samples", []))
        self.notes.extend(rep.get("notes", []))
        self.impl_violations.extend(rep.get("impl_violations", []))
        mism = rep.get("model_mismatches", [])
        self.obligation(name, not mism, json.dumps(mism[:3])[:1500] if mism else "")
        if mism:
            self.coverage.setdefault("model_mismatches", []).extend(mism[:20])
        return rep

    # --------------------------------------------------------------- finish
    def finish(self, level="proof", rule="", search=None, extra_assumptions=()):
        """Decide, write evidence, print VIOLATION / KNOWN-FINDING lines."""
        known = load_known(self.pid)
        os.makedirs(os.path.join(VERIF, "evidence", "replays"), exist_ok=True)
        if self.broken and search is not None:
            self.log("tie or proof broken → search mode")
            before = len(self.impl_violations)
            try:
                search(self)
            except Exception as e:  # search is best effort
                self.log(f"search raised {e!r}")
            self.coverage["search_found"] = len(self.impl_violations) - before
        exit_code = 0
        lines = []
        unlisted = []
        seen_known = set()
        for v in self.impl_violations:
            k = match_known(known, v)
            if k is not None:
                if k["id"] not in seen_known:
                    seen_known.add(k["id"])
                    lines.append(f"KNOWN-FINDING: property={self.pid} {k['what']}")
            else:
                unlisted.append(v)
        if unlisted:
            # one replay file per distinct key, first instance is the replay
            by_key = {}
            for v in unlisted:
                by_key.setdefault(v.get("key", "?"), v)
            for i, (key, v) in enumerate(sorted(by_key.items())):
                path = os.path.join(VERIF, "evidence", "replays", f"{self.pid}-{i}.json")
                json.dump({"property": self.pid, "kind": "failing-input", "key": key,
                           "what": v.get("what"), "input": v.get("input"),
                           "broken_obligations": self.broken}, open(path, "w"), indent=1)
                lines.append(f"VIOLATION property={self.pid} replay={path}")
            exit_code = 1
        elif self.broken:
            path = os.path.join(VERIF, "evidence", "replays", f"{self.pid}-broken.json")
            json.dump({"property": self.pid, "kind": "broken-obligation",
                       "broken": [{"name": n, "detail": d} for (n, ok, d) in self.obligations if not ok],
                       "note": "no concrete failing input was found by the search; the named theorem / "
                               "correspondence no longer checks against the current source"},
                      open(path, "w"), indent=1)
            lines.append(f"VIOLATION property={self.pid} replay={path} no-failing-input-found")
            exit_code = 1
        total = len(self.obligations)
        done = sum(1 for (_, ok, _) in self.obligations if ok)
        cov = dict(self.coverage)
        cov.update({
            "obligations": max(total, 1),
            "discharged": done,
            "obligation_list": [{"name": n, "ok": ok} for (n, ok, _) in self.obligations],
            "checker_cmd": " && ".join(self.checker_cmds) or "n/a",
            "trusted_base": self.trusted,
            "evaluations": self.evaluations,
            "distinct_nontrivial": len(self.classes),
            "rule": rule,
            "samples": self.samples[:12] or [{"obligations": [n for (n, _, _) in self.obligations[:10]]}],
            "histograms": self.histograms,
            "known_findings_reported": sorted(seen_known),
            "notes": self.notes[:20],
        })
        ev = {
            "property_id": self.pid,
            "tier": self.tier,
            "seed": self.seed,
            "level": level,
            "coverage": cov,
            "assumptions": self.trusted + list(extra_assumptions),
            "wall_s": round(time.time() - self.t0, 2),
            "violations": len(unlisted) + (1 if (self.broken and not unlisted) else 0),
        }
        json.dump(ev, open(os.path.join(VERIF, "evidence", f"{self.pid}.json"), "w"), indent=1)
        for l in lines:
            print(l, flush=True)
        self.log(f"obligations {done}/{total}, evaluations {self.evaluations}, "
                 f"distinct {len(self.classes)}, wall {ev['wall_s']}s, exit {exit_code}")
        return exit_code


def load_known(pid):
    path = os.path.join(VERIF, "known_findings.json")
    try:
        data = json.load(open(path))
    except OSError:
        return []
    return [k for k in data.get("findings", []) if k.get("property") == pid and k.get("status") == "open"]


def match_known(known, violation):
    """A finding matches by its specific key pattern (and optional input
    pattern) — never by property alone."""
    key = violation.get("key", "")
    blob = json.dumps(violation.get("input", ""), sort_keys=True)
    for k in known:
        if re.search(k["key_regex"], key) and re.search(k.get("input_regex", ""), blob):
            return k
    return None
