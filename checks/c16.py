"""C16 — lists stay memory-safe when shared between threads."""
import json
import os
import common

PROPS = "RotoV.Props.C16"
MODULES = ["RotoV.Lemmas.ListConc", "RotoV.Model.ListConc", "RotoV.Lemmas.ListTrace", "RotoV.Model.ListTrace",
           "RotoV.Lemmas.ListConcIter", "RotoV.Model.ListConcIter"]


def harness_args(ctx, seed, tier, model=True):
    args = ["run", seed, tier]
    if not model:
        args.append("--no-model")
    return args


def driver_ok(ctx):
    """(Re)build the driver against the regenerated facts; the model's
    predictions are only used when it builds."""
    ok, _ = ctx.lake_build(["rotov-driver"])
    return ok


TSAN_TARGET = os.path.join(common.TARGET, "tsan")
TSAN_REL = os.path.join("..", "tsan", "x86_64-unknown-linux-gnu", "debug", "c16")
TSAN_LOGS = os.path.join(TSAN_TARGET, "reports-c16")


def tsan_build(ctx):
    """The harness in a ThreadSanitizer build (`cargo +nightly -Zbuild-std`,
    offline; same target directory as C12's). std is rebuilt instrumented, so
    the futex mutex's acquire/release are seen. None if the toolchain cannot
    build it (recorded as a note)."""
    import subprocess
    e = common.env()
    e["RUSTFLAGS"] = "-Zsanitizer=thread"
    e["CARGO_TARGET_DIR"] = TSAN_TARGET
    with common.Lock("cargo-tsan"):
        try:
            p = subprocess.run(
                ["cargo", "+nightly", "build", "--offline", "--quiet", "-Zbuild-std",
                 "--target", "x86_64-unknown-linux-gnu", "--bin", "c16", "-j", "4"],
                cwd=os.path.join(common.VERIF, "harness"), env=e, timeout=2400,
                stdout=subprocess.PIPE, stderr=subprocess.STDOUT, text=True, errors="replace")
            ok, out = p.returncode == 0, p.stdout
        except (subprocess.TimeoutExpired, OSError) as ex:
            ok, out = False, repr(ex)
    if not ok:
        ctx.notes.append("thread-sanitizer build not available here: " + out[-300:].replace("\n", " "))
        return False
    return True


def tsan(ctx, trials, name):
    """Free-running races of list operations under ThreadSanitizer: finds an
    access to list memory outside the ordering its mutex gives even when no
    schedule point separates it from the critical section."""
    if not tsan_build(ctx):
        return
    os.makedirs(TSAN_LOGS, exist_ok=True)
    old = {k: os.environ.get(k) for k in ("TSAN_OPTIONS", "C16_TSAN_LOGDIR")}
    os.environ["TSAN_OPTIONS"] = "halt_on_error=1 exitcode=66 log_path=" + os.path.join(TSAN_LOGS, "tsan")
    os.environ["C16_TSAN_LOGDIR"] = TSAN_LOGS
    try:
        ctx.harness(TSAN_REL, ["tsan", ctx.seed + 1, trials], timeout=2400, name=name)
    finally:
        for k, v in old.items():
            if v is None:
                os.environ.pop(k, None)
            else:
                os.environ[k] = v


def search(ctx):
    """A theorem stopped checking against the regenerated lock-scope facts, or
    the model and the implementation disagree: hunt for a schedule on which the
    property fails on the real code: the scheduled case set with another seed
    (the property oracle needs no model) and 200000 free-running races, which
    can hit code that touches the buffer outside every guard without passing a
    schedule point."""
    if any(not common.match_known(common.load_known(ctx.pid), v) for v in ctx.impl_violations):
        return
    if ctx.build_harness("c16"):
        ctx.harness("c16", harness_args(ctx, ctx.seed + 7919, "quick", model=driver_ok(ctx)) + ["--stress", "200000"],
                    timeout=3000, name="search:c16")
    if not any(not common.match_known(common.load_known(ctx.pid), v) for v in ctx.impl_violations):
        tsan(ctx, 6000, "search:c16-tsan")


def named_functions(ctx):
    """One obligation per function of src/value/list.rs above the lock that takes a
    list's lock or reaches the element buffer (enumerated by the extractor, listed in
    the header of the generated file): it must be one of the operations the model has
    steps for. A new helper is a broken obligation *by name*."""
    path = os.path.join(common.LEAN, "RotoV", "Generated", "C16Facts.lean")
    try:
        text = open(path).read()
    except OSError:
        return
    for line in text.splitlines():
        line = line.strip()
        for tag, ok in (("MODELLED ", True), ("UNMODELLED ", False)):
            if line.startswith(tag):
                name, _, why = line[len(tag):].partition(": ")
                ctx.obligation("modelled:" + name.replace(" ", "_"), ok,
                               "" if ok else "not an operation the model has steps for: " + why)


def run(ctx):
    # c16facts: lock-scope facts, traces, function enumeration; listiter: what `into_iter`
    # initialises and `IntoIter::next` decides (the live-iterator layer of the model)
    if ctx.extract(["c16facts", "listiter"]):
        named_functions(ctx)
    proved = ctx.prove(PROPS, extra_modules=MODULES)
    model = True
    if not proved:
        # the facts changed: the driver must still follow the *current* source
        model = driver_ok(ctx)
    if ctx.build_harness("c16"):
        ctx.harness("c16", harness_args(ctx, ctx.seed, ctx.tier, model=model), timeout=3000)
        if ctx.tier == "thorough":
            tsan(ctx, 6000, "correspondence:c16-tsan")
    ctx.trusted += [
        "std::sync::Mutex gives mutual exclusion and Arc keeps the list alive while a handle exists (not verified)",
        "the schedule points of the verif-hooks instrumentation (before every list mutex acquisition, between pointer "
        "lookup and use) are the only places where the interleaving of list operations matters: between two of them a "
        "thread touches shared list state only under the mutexes it holds (argued from the source, checked by the "
        "lock-scope extractor for every function above the lock and exercised by the element-level schedule points of the "
        "probe element type; in the model: locked_list_untouched_by_other_threads + lock_structure_derived_from_source)",
        "what the hardware / allocator does with a stale pointer is not modelled: the instrumentation reports the stale "
        "use (pointer obtained before a realloc/free event covering its address) instead of performing it",
        "a thread that drives an iterator decides its next operation from the results it has (IntoIter::next, decisions "
        "generated by target listiter); it is identified with the static program of the operations it issued (Follows; "
        "later_operations_do_not_change_the_run_so_far is the reason; that the driver's adaptive execution issues Follows "
        "programs is checked on every answer, not proved)",
        "elements are u64 (no element destructor, clone = copy); RawList's Vec semantics (push/extend/swap/contains) is "
        "modelled by hand and tied by the differential run only (C15 owns its refinement proof)",
    ]
    return ctx.finish(
        level="proof",
        rule="every maximal interleaving (at schedule-point granularity, enumerated by stateless depth-first search on the "
             "real threads) of every case: 184 class representatives first (a live Rust-side iterator - one critical section per "
             "`next` - x {relocating push, swap, concat, ==, to_vec, drop, a second iterator}, resumed after its end, dropped "
             "against the last drop, over u64 and probe elements; every operation that walks over elements x "
             "{relocating push, swap} with element-level schedule points - lists of a probe element type whose Clone / "
             "PartialEq are schedule points; == over equal lists; concat / + with empty and non-empty operands through "
             "compiled scripts and directly; every scripted operation x mutator), then all pairs of single operations from "
             "a 25-operation alphabet over two shared "
             "lists, then random cases (2 threads x <= 2 ops, every 16th 3 threads x 1 op, every 8th through compiled Roto scripts, every 10th with a live iterator, quick; 2-3 threads x <= 3 ops and every pair of the 90 programs of <= 2 ops over a 9-operation alphabet, thorough); evaluations = "
             "executed schedules; a class is distinct by (operation kinds per thread, how the schedule ended, whether a "
             "reallocation happened, whether some thread was blocked, element flavour: u64 / through scripts / probe elements); "
             "250 (quick) / 1500 (thorough) random probe-element cases are judged by the property oracle only",
        search=search,
    )


def replay(ctx, data):
    if data.get("kind") != "failing-input":
        print(json.dumps(data, indent=1))
        return 1
    if not ctx.build_harness("c16"):
        return 1
    inp = data["input"]
    if inp.get("tsan"):
        # probabilistic in time, deterministic in outcome: repeat the race under ThreadSanitizer
        if not tsan_build(ctx):
            return 1
        os.environ["TSAN_OPTIONS"] = "halt_on_error=1 exitcode=66"
        case = {"lists": inp["lists"], "progs": inp["progs"], "stress": True, "seed": inp.get("seed", 1)}
        rc, out = common.run([os.path.join(common.TARGET, "debug", TSAN_REL), "replay", json.dumps(case)],
                             cwd=common.VERIF, timeout=1200)
        if rc == 66:
            print("REPLAY-VIOLATION tsan -", "\n".join(l for l in out.splitlines() if "ThreadSanitizer" in l or "roto::value::list" in l)[:1500])
            return 1
        print(out[-400:])
        return 0 if rc == 0 else 1
    case = {k: inp[k] for k in ("lists", "progs", "sched", "stress", "seed", "elem", "script") if k in inp}
    rep = ctx.harness("c16", ["replay", json.dumps(case)])
    if rep is None:
        return 1
    for v in rep.get("impl_violations", []):
        print("REPLAY-VIOLATION", v.get("key"), "-", v.get("what"))
    return 1 if rep.get("impl_violations") else 0
