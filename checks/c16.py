"""C16 — lists stay memory-safe when shared between threads."""
import json
import os
import common

PROPS = "RotoV.Props.C16"
MODULES = ["RotoV.Lemmas.ListConc", "RotoV.Model.ListConc"]


def harness_args(ctx, seed, tier, model=True):
    args = ["run", seed, tier]
    if not model:
        args.append("--no-model")
    return args


def driver_ok(ctx):
    """(Re)build the driver against the regenerated facts; the model's
    predictions are only used when it builds."""
    ok, _ = ctx.lake_build(["rotov-driver"])
    return ok


def search(ctx):
    """A theorem stopped checking against the regenerated lock-scope facts, or
    the model and the implementation disagree: hunt for a schedule on which the
    property fails on the real code: the scheduled case set with another seed
    (the property oracle needs no model) and 400000 free-running races, which
    can hit code that touches the buffer outside every guard without passing a
    schedule point."""
    if any(not common.match_known(common.load_known(ctx.pid), v) for v in ctx.impl_violations):
        return
    if ctx.build_harness("c16"):
        ctx.harness("c16", harness_args(ctx, ctx.seed + 7919, "quick", model=driver_ok(ctx)) + ["--stress", "400000"],
                    timeout=3000, name="search:c16")


def run(ctx):
    ctx.extract(["c16facts"])
    proved = ctx.prove(PROPS, extra_modules=MODULES)
    model = True
    if not proved:
        # the facts changed: the driver must still follow the *current* source
        model = driver_ok(ctx)
    if ctx.build_harness("c16"):
        ctx.harness("c16", harness_args(ctx, ctx.seed, ctx.tier, model=model), timeout=3000)
    ctx.trusted += [
        "std::sync::Mutex gives mutual exclusion and Arc keeps the list alive while a handle exists (not verified)",
        "the schedule points of the verif-hooks instrumentation (before every list mutex acquisition, between pointer "
        "lookup and use) are the only places where the interleaving of list operations matters: between two of them a "
        "thread touches shared list state only under the mutexes it holds (argued from the source, checked by the "
        "lock-scope extractor for every ErasedList method; not a theorem)",
        "what the hardware / allocator does with a stale pointer is not modelled: the instrumentation reports the stale "
        "use (pointer obtained before a realloc/free event covering its address) instead of performing it",
        "elements are u64 (no element destructor, clone = copy); RawList's Vec semantics (push/extend/swap/contains) is "
        "modelled by hand and tied by the differential run only (C15 owns its refinement proof)",
    ]
    return ctx.finish(
        level="proof",
        rule="every maximal interleaving (at schedule-point granularity, enumerated by stateless depth-first search on the "
             "real threads) of every case: all pairs of single operations from a 20-operation alphabet over two shared "
             "lists, then random cases (2 threads x <= 2 ops quick; 2-3 threads x <= 3 ops thorough); evaluations = "
             "executed schedules; a class is distinct by (operation kinds per thread, how the schedule ended, whether a "
             "reallocation happened, whether some thread was blocked)",
        search=search,
    )


def replay(ctx, data):
    if data.get("kind") != "failing-input":
        print(json.dumps(data, indent=1))
        return 1
    if not ctx.build_harness("c16"):
        return 1
    inp = data["input"]
    case = {k: inp[k] for k in ("lists", "progs", "sched") if k in inp}
    rep = ctx.harness("c16", ["replay", json.dumps(case)])
    if rep is None:
        return 1
    for v in rep.get("impl_violations", []):
        print("REPLAY-VIOLATION", v.get("key"), "-", v.get("what"))
    return 1 if rep.get("impl_violations") else 0
