"""C15 — lists behave like one shared growable array."""
import json
import common

PROPS = "RotoV.Props.C15"
MODULES = ["RotoV.Lemmas.ListCap", "RotoV.Lemmas.ListRaw", "RotoV.Lemmas.ListInv", "RotoV.Lemmas.ListRefine", "RotoV.Lemmas.ListNested",
           "RotoV.Lemmas.ListJoin", "RotoV.Lemmas.ListFor", "RotoV.Lemmas.ListSelfEq", "RotoV.Lemmas.ListIter", "RotoV.Lemmas.ListBind", "RotoV.Model.ListBind", "RotoV.Model.ListBindBase",
           "RotoV.Model.ListM", "RotoV.Model.ListBase", "RotoV.Model.ListFor", "RotoV.Model.ListIter"]


def search(ctx):
    """A theorem stopped checking against the regenerated capacity function /
    lock facts, or model and implementation disagree: hunt for a concrete
    history on which the property fails on the real code."""
    if ctx.impl_violations:
        return
    if ctx.build_harness("c15"):
        ctx.harness("c15", ["run", ctx.seed + 7919, "search"], timeout=3000, name="search:c15")


def run(ctx):
    ctx.extract(["capacity", "listlocks", "listguards", "listjoin", "listfor", "listiter", "listbind"])
    ctx.prove(PROPS, extra_modules=MODULES)
    if ctx.build_harness("c15"):
        ctx.harness("c15", ["run", ctx.seed, ctx.tier], timeout=3000)
    ctx.trusted += [
        "std::sync::Mutex is not re-entrant (lock() on a mutex the thread holds never returns), Arc's strong count, "
        "the global allocator and ptr::copy/swap_nonoverlapping behave as documented (modelled, not verified)",
        "element values are compared by an injective encoding into naturals (u8/u64 themselves, the id of a tracked value; "
        "for String the table elemStr — \"\", \"s\", \"s1\", \"s1 \", \"S1\", \",\", multi-byte, else \"s<n>\" — proved injective in Lean "
        "(string_elements_distinct) and compared with the harness's table on every run); element clone/drop of the tracked types only count; "
        "a Rust string is its UTF-8 bytes and [S]::join is std's join_generic_copy as written in ListBase.sliceJoin (first element, then "
        "separator + element), proved equal to intersperse-and-flatten",
        "single-threaded histories only (interleavings are C16's); list lengths stay below 2^63 elements",
        "an f64 element is its bit pattern (model value 2^64 + bits) and its == is RotoV.ListM.f64Eq (NaN: exponent all ones and "
        "mantissa non-zero, equal to nothing; both zeros equal; otherwise the same bits) — compared with Rust's f64 == on every "
        "pair of the values used, on every run (floats_tie); a script `for` is the operation sequence RotoV.ListM.forOps (own "
        "handle, get by index until None, drop) parameterised by the lowering facts generated from src/mir/lower.rs; the "
        "function's variables are handle variables of the model",
        "a Rust-side iterator is RotoV.ListM.istep over the decisions generated from IntoIterator for List<A> / IntoIter::next "
        "(target listiter); `?` on List::get's None ends next without touching the index; the iterator's handle is a handle "
        "variable no other operation names; size_hint is not modelled",
        "the script bindings of impl ErasedList are the rows of Gen.ListBind.bindings (target listbind: the one list function the body "
        "calls, positions of the binding's own parameters among its arguments, casts, result conversion; NonNull::new_unchecked(p.0), &p, "
        "out.ptr.cast(), `let x = p;` are the parameter p); an `as` cast to an integer type keeps the low bits (castTo); ffi::list_get "
        "is the model's get (its body is tied by the script correspondence only)",
    ]
    return ctx.finish(
        level="proof",
        rule="histories on the real List<T> API and on compiled scripts over 3 handle variables: fixed boundary histories "
             "(growth across every power of two, self-concatenation, aliasing, == of same/aliased/distinct handles), every "
             "expressible sequence of <= 3 operations over 3 handles and of 4 over 2 handles from a 78/38-letter alphabet "
             "(String: 81/40 letters with join and the empty string; thorough: 4 over 3 handles), and random histories of <= 200 "
             "operations; element types u8, u64, String (values include the empty string, a prefix of another element, case "
             "variants, multi-byte), zero-sized tracked, 24-byte tracked, nested List; join of 17 fixed lists (empty strings "
             "leading / trailing / only / interleaved, nil, singleton, elements equal to the separator) x 2 builders x 6 "
             "separators (one byte, empty, two bytes, multi-byte, equal to an element) first; indices that are in range only "
             "after a truncating cast; after every operation the result, every handle's "
             "len/capacity/contents and the live tracked elements are compared with shared Vecs (join: Vec<String>::join; "
             "contains / index / == through the element type's own PartialEq) and "
             "with the Lean model; a class is distinct by (element type, operation, issuer, result shape, length bucket, handles "
             "bound, capacity changed; join: separator, where the empty strings are). Seventh element type f64 — a Copy "
             "type whose == is not the comparison of its bytes (0.0 / -0.0, two NaNs, infinities, subnormals; lists built by "
             "Rust and by scripts = with and without clone function, as left and right operand of both ==, contains, index; "
             "nested List[List[f64]] scenarios) — and script loops with a body (`for x in l { …; if i == k { <body> } }` with "
             "<body> = l = o | l = l + o | l = [] | r.items = o (field path) | o.push(v) | o.swap(i, j), o the walked list, an "
             "alias or another list, k first / middle / last / never) as class representatives first, as a letter of the "
             "exhaustive alphabets and in the random histories. Rust-side iterators kept ALIVE between operations "
             "(`in:k:h` = h.clone().into_iter(), `ix:k` = next(), `id:k` = drop; two at once) against cursors into the shared "
             "vectors and against RotoV.ListM.istep: growth through a Rust alias / a script during the walk, a walk that starts "
             "empty, next after None, an iterator outliving every handle, swap / rebinding under two iterators, growth across a "
             "reallocation — class representatives first, 5 letters of the exhaustive alphabets, a third of the random histories. "
             "The number a capacity() call returns (Rust or script) must be the capacity the same list reports right after it",
        search=search,
    )


def replay(ctx, data):
    if data.get("kind") != "failing-input":
        print(json.dumps(data, indent=1))
        return 1
    if not ctx.build_harness("c15"):
        return 1
    inp = data["input"]
    case = inp.get("case", inp)
    rep = ctx.harness("c15", ["replay", json.dumps(case)], timeout=300)
    if rep is None:
        return 1
    for v in rep.get("impl_violations", []):
        print("REPLAY-VIOLATION", v.get("key"), "-", v.get("what"))
    for v in rep.get("model_mismatches", []):
        print("REPLAY-MISMATCH", v.get("what"))
    return 1 if rep.get("impl_violations") else 0
