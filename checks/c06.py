"""C06 — compilation is total: every input yields a package or a report."""
import json
import common

PROPS = "RotoV.Props.C06"
MODULES = [
    "RotoV.Lemmas.Lexer", "RotoV.Lemmas.LexerBasics", "RotoV.Lemmas.LexerRecognisers",
    "RotoV.Lemmas.LexerDriver", "RotoV.Lemmas.TypeCycle",
    "RotoV.Model.Lexer", "RotoV.Model.LexerBase", "RotoV.Model.TypeCycle",
]
PROPS_REPORT = "RotoV.Props.C06Report"
MODULES_REPORT = ["RotoV.Model.ReportBase"]
PROPS_UNIFY = "RotoV.Props.C06Unify"
MODULES_UNIFY = ["RotoV.Lemmas.Unify", "RotoV.Model.Unify", "RotoV.Model.UnifyBase"]
# the parser: model over the proved lexer model, parse_total / parse_error_spans_ok, and the
# generated decision tables + call skeletons of src/parser/*.rs pinned to what the model was written against
PROPS_PARSE = "RotoV.Props.C06Parse"
MODULES_PARSE = ["RotoV.Model.ParseBase", "RotoV.Model.Parse", "RotoV.Lemmas.ParseLexText", "RotoV.Lemmas.ParseFText", "RotoV.Lemmas.ParseSub", "RotoV.Lemmas.ParseBase", "RotoV.Lemmas.ParsePaths",
                 "RotoV.Lemmas.ParseTypes", "RotoV.Lemmas.ParseExpr", "RotoV.Lemmas.ParseTop"]
PROPS_PARSE_SOURCE = "RotoV.Props.C06ParseSource"


def search(ctx):
    """A proof obligation or the model/implementation tie broke: hunt for an
    input on which the property fails on the real code (bigger crash-oracle
    run with another seed; corpus and boundary stream are replayed first) —
    unless the run itself has already produced one."""
    known = common.load_known(ctx.pid)
    if any(common.match_known(known, v) is None for v in ctx.impl_violations):
        return  # the run itself already produced a concrete failing input
    if ctx.build_harness("c06"):
        ctx.harness("c06", ["run", ctx.seed + 7919, "thorough", "--parse-strict"], timeout=3000, name="search:c06")


def run(ctx):
    # `precedence` (src/parser/precedence.rs: relative_associativity, peek_binop) is the relation the parser model's
    # Pratt loop calls; `parsefacts`: decision tables and call skeletons of the parser
    ctx.extract(["lextables", "unifyfacts", "reportslices", "precedence", "parsefacts"])
    ctx.prove(PROPS, extra_modules=MODULES)
    ctx.prove(PROPS_REPORT, extra_modules=MODULES_REPORT, extra_targets=())
    ctx.prove(PROPS_UNIFY, extra_modules=MODULES_UNIFY, extra_targets=())
    ctx.prove(PROPS_PARSE, extra_modules=MODULES_PARSE, extra_targets=())
    ctx.prove(PROPS_PARSE_SOURCE, extra_targets=())
    if ctx.build_harness("c06"):
        # --parse-strict: a driver without the parser model (`bad-op`) is a broken tie, not a skipped comparison
        ctx.harness("c06", ["run", ctx.seed, ctx.tier, "--parse-strict"], timeout=3000)
    ctx.trusted += [
        "unicode-ident (XID_Start / XID_Continue) and char::is_whitespace are PARAMETERS of the lexer theorems; "
        "the driver instantiates them per input from the real functions (hook char_flags)",
        "std: str slicing panics exactly off character boundaries / out of range; split_once, trim_start_matches, "
        "strip_prefix, char_indices behave as documented (modelled in Model/Lexer.lean)",
        "the hand-written lexer model is tied to src/parser/lexer.rs by the generated tables (keywords, punctuation, "
        "recogniser order) and by diffing token streams (kinds + byte spans) on every generated input",
        "the hand-written parser model (Model/ParseBase, Model/Parse) is tied to src/parser/{mod,expr,filter_map}.rs by the "
        "generated decision tables it reads, by the generated call skeleton of every parser method pinned in "
        "Props/C06ParseSource, and by diffing its outcome (tree shape / error kind + location + hint, and the whole span "
        "table) against the real parser on every single-file input; the literal decoders proper (which literals std parse / "
        "rustc-literal-escaper accept, and the escaper's error range relative to its input) are PARAMETERS of the parser "
        "theorems, instantiated per input from the real decoders (hook literal_verdict; the driver turns the absolute "
        "location the real parser reports into the relative range, the model redoes the parser's arithmetic on it)",
        "EXPLORATION ONLY (no theorem): type checker bodies (beyond unification / the cycle check), lowering, code "
        "generation and report rendering bodies are covered by the crash oracle — panic / signal / stack overflow / "
        "timeout in a worker process",
        "ariadne, rustc-literal-escaper, cranelift: exercised by the oracle, not modelled",
        "inputs: file names inside one tree are distinct (as on disk); nesting depth <= 64",
    ]
    return ctx.finish(
        level="proof",
        rule="one PRNG; classes: random token sequences, harvested valid programs (431 from the repository's tests and "
             "examples) with token-/character-level mutations, splices, Unicode identifier substitution, untyped "
             "grammar-generated programs (type-incorrect but syntactically valid), nesting up to 64, multi-module "
             "trees, type-declaration sets (diffed against the Lean cycle-check model). A class is distinct by "
             "(generator, outcome stage) or by the first 64 token kinds of its token stream",
        search=search,
    )


def replay(ctx, data):
    if data.get("kind") != "failing-input":
        print(json.dumps(data, indent=1))
        return 1
    if not ctx.build_harness("c06"):
        return 1
    rep = ctx.harness("c06", ["replay", json.dumps(data["input"])])
    return 1 if rep and rep.get("impl_violations") else 0
