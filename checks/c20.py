"""C20 — the IR evaluator agrees with the compiled code or stops loudly."""
import json
import os
import common

PROPS = "RotoV.Props.C20"


def search(ctx):
    if ctx.build_harness("c20"):
        ctx.harness("c20", ["run", ctx.seed + 7919, "thorough"], timeout=3000, name="search:c20")


def run(ctx):
    ctx.extract(["optables", "evalarms"])
    ctx.prove(PROPS, extra_modules=["RotoV.Lemmas.ScalarBase", "RotoV.Lemmas.ScalarDiv", "RotoV.Lemmas.Scalar", "RotoV.Lemmas.ScalarEval", "RotoV.Model.RustStd", "RotoV.Model.Lir", "RotoV.Model.Clif"])
    if ctx.build_harness("c20"):
        ctx.harness("c20", ["run", ctx.seed, ctx.tier], timeout=3000)
    ctx.trusted += [
        "Cranelift instruction semantics as written in RotoV/Model/Clif.lean (documented CLIF behaviour; not verified)",
        "IEEE-754 operations are uninterpreted (FloatOps); widening f32->f64 preserves comparisons (FloatLaws)",
        "modelled, not verified: control flow, memory and host-call adapters of the evaluator are covered by the differential run only",
    ]
    return ctx.finish(
        level="proof",
        rule="single-instruction programs: every (type, operator) x boundary^2 + random operands; compound programs: "
             "random expression trees (arith, comparisons, &&, ||, !, if/else, let) x 20 argument tuples; "
             "a class is distinct by (type, operator, outcome) or by program text with >=1 agreeing execution",
        search=search,
    )


def replay(ctx, data):
    if data.get("kind") != "failing-input":
        print(json.dumps(data, indent=1))
        return 1
    if not ctx.build_harness("c20"):
        return 1
    inp = data["input"]
    case = inp.get("case", inp)
    rep = ctx.harness("c20", ["replay", json.dumps(case)])
    return 1 if rep and rep.get("impl_violations") else 0
