"""C20 — the IR evaluator agrees with the compiled code or stops loudly."""
import json
import os
import common

PROPS = "RotoV.Props.C20"
PROPS_MEM = "RotoV.Props.C20Mem"
PROPS_REGS = "RotoV.Props.C20Regs"


def search(ctx):
    if ctx.build_harness("c20"):
        ctx.harness("c20", ["run", ctx.seed + 7919, "thorough"], timeout=3000, name="search:c20")


def _prove(ctx, acc, module, **kw):
    """ctx.prove keeps the theorem list of the last module only: accumulate over the three modules"""
    for k in ("theorems", "nonvacuity_examples", "axioms"):
        ctx.coverage.pop(k, None)
    ctx.prove(module, **kw)
    acc["theorems"] += ctx.coverage.get("theorems", [])
    acc["nonvacuity_examples"] += ctx.coverage.get("nonvacuity_examples", 0)
    acc["axioms"].update(ctx.coverage.get("axioms", {}))
    ctx.coverage.update(acc)


def run(ctx):
    acc = {"theorems": [], "nonvacuity_examples": 0, "axioms": {}}
    ctx.extract(["optables", "evalarms", "evalmem", "evalregs"])
    # the scalar theorems do not depend on Generated/EvalMem: built without the driver, so that a
    # change of the memory / control-flow code is attributed to the theorems it breaks
    _prove(ctx, acc, PROPS, extra_modules=["RotoV.Lemmas.ScalarBase", "RotoV.Lemmas.ScalarDiv", "RotoV.Lemmas.Scalar", "RotoV.Lemmas.ScalarEval", "RotoV.Model.RustStd", "RotoV.Model.Lir", "RotoV.Model.Clif"],
              extra_targets=())
    # T2 memory_checked / T3 switch_agrees over Generated/EvalMem (Memory, Allocation, StackFrame,
    # the Switch arms of the evaluator and of the code generator)
    _prove(ctx, acc, PROPS_MEM, extra_modules=["RotoV.Model.EvalMem"])
    # T4 registers_keyed_by_scope_and_name over Generated/EvalRegs (Var / VarKind, the key of the evaluator's
    # register file and of the code generator's variable map, eval_operand)
    _prove(ctx, acc, PROPS_REGS, extra_modules=["RotoV.Model.EvalRegs"], extra_targets=())
    if ctx.build_harness("c20"):
        ctx.harness("c20", ["run", ctx.seed, ctx.tier], timeout=3000)
    ctx.trusted += [
        "Cranelift instruction semantics as written in RotoV/Model/Clif.lean (documented CLIF behaviour; not verified)",
        "IEEE-754 operations are uninterpreted (FloatOps); widening f32->f64 preserves comparisons (FloatLaws)",
        "cranelift_frontend::Switch as written in RotoV/Model/EvalMem.lean (set_entry rejects a repeated key, emit reaches the entry's block or the default; documented behaviour, not verified)",
        "usize arithmetic of the evaluator's memory is modelled in Nat (no overflow of `+`; `-` panics/wraps below zero like Rust); what lies behind a Pointer::Global is uninterpreted; raw pointers handed to clone/drop/eq functions (Memory::get) are outside the model",
        "modelled, not verified: the type checker's name resolution (resolveName: innermost declaring scope) and Cranelift's def_var/use_var (last definition); the per-instruction `vars.insert` sites and host-call adapters of the evaluator are covered by the differential run only",
    ]
    return ctx.finish(
        level="proof",
        rule="mem: operation histories on the real Memory (boundary table per allocation size 0..24: every width 1/2/4/8/16/3/12 at every "
             "offset up to 9 past the end, frame tables, random histories) judged by a shadow oracle and compared with the generated Lean "
             "model, class = (operation, width, allocation size, in-bounds/out-of-bounds/within-padding/misaligned/dangling, outcome); "
             "flow: FIRST 44 class representatives independent of the seed — match1: one explicit arm + `_` for every (3..5 variants, arm k, "
             "payload or not) x every variant (single-entry branch tables); shadow: 20 programs in which a nested block / match arm / "
             "pattern binding / loop body / callee declares a name that is still live outside (scalars, records), the outer variable read "
             "again afterwards; then a random stream of block-structured programs (names from a pool of four + parameters: 60 deliberate, 30 "
             "mostly unique) x 9 argument tuples; matches over enums of 3..9 variants (payloads, `_`, shuffled arms) for every variant x 6 branch-table orders, calls with "
             "permuted arguments, straight-line record programs with one access pushed past its stack slot, class = program text or "
             "(site kind, slot size, width, outcome); single-instruction programs: every (type, operator) x boundary^2 + random operands; "
             "compound programs: random expression trees x 20 argument tuples; a class is distinct by (type, operator, outcome) or by "
             "program text with >=1 agreeing execution",
        search=search,
    )


def replay(ctx, data):
    if data.get("kind") != "failing-input":
        print(json.dumps(data, indent=1))
        return 1
    if not ctx.build_harness("c20"):
        return 1
    inp = data["input"]
    case = inp.get("case", inp)
    rep = ctx.harness("c20", ["replay", json.dumps(case)])
    bad = bool(rep and rep.get("impl_violations"))
    for v in (rep or {}).get("impl_violations", [])[:1]:
        print("reproduced:", v.get("what"))
    print("REPLAY", "reproduces the violation" if bad else "does not reproduce (no violation on this tree)")
    return 1 if bad else 0
