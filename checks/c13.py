"""C13 — names resolve to the item the module rules designate."""
import json
import common

PROPS = "RotoV.Props.C13"
EXTRA = ["RotoV.Lemmas.Scope", "RotoV.Lemmas.ScopePath", "RotoV.Lemmas.ScopeFrame", "RotoV.Lemmas.ScopeBuild", "RotoV.Lemmas.ScopeDiscovery", "RotoV.Lemmas.ScopeExport", "RotoV.Lemmas.ScopeWitness", "RotoV.Lemmas.ScopeImports", "RotoV.Lemmas.ScopeTermination", "RotoV.Lemmas.ScopeGetFunction", "RotoV.Lemmas.ScopeNoPanic", "RotoV.Lemmas.ScopeAlias", "RotoV.Lemmas.ScopeImportsLoop", "RotoV.Lemmas.ScopeImportsComplete", "RotoV.Lemmas.ScopeResolveLoop", "RotoV.Lemmas.ScopePathLoop", "RotoV.Model.ScopePathLoop", "RotoV.Lemmas.ScopeImportOne", "RotoV.Model.ScopeImportOne", "RotoV.Model.ScopeImportsLoop", "RotoV.Model.ScopeResolveLoop", "RotoV.Model.Scope"]


def search(ctx):
    # the fixed boundary trees are the head of every run; then a bigger random run
    if ctx.build_harness("c13"):
        ctx.harness("c13", ["run", ctx.seed + 7919, "thorough" if ctx.tier == "thorough" else "search"],
                    timeout=3000, name="search:c13")


def run(ctx):
    ctx.extract(["scopefacts", "scopeimports", "scoperesolve", "scopepath", "scopeimportone"])
    ctx.prove(PROPS, extra_modules=EXTRA)
    if ctx.build_harness("c13"):
        ctx.harness("c13", ["run", ctx.seed, ctx.tier], timeout=3000)
    ctx.trusted += [
        "hand-written model RotoV/Model/Scope.lean of ScopeGraph (wrap, resolve_name, insert_declaration, "
        "insert_import, parent_module, module_name, print_scope), resolve_module_part_of_path, import/imports, the "
        "name-relevant passes of check_module_tree, full_name/get_function and find_files/process_subdir; resolve_name, "
        "resolve_module_part_of_path, import and the loop of imports are tied by transliteration theorems, the rest by "
        "generated facts and the differential run only (the quantifier over module trees is sampled there)",
        "stub declarations and their later update are merged in the model; TypeParams scopes are not allocated "
        "(scope numbering is compared through print_scope, never raw)",
        "the parser's expansion of nested import lists is re-implemented in the harness (prefix ++ sub-path) and "
        "checked through the resulting import tables",
        "identifiers are abstract numbers; the lexer/parser decide what is an identifier (C09/C06)",
        "translator target scopeimports: the body of TypeChecker::imports is transliterated statement by statement "
        "into the little language of Model/ScopeImportsLoop.lean (the meaning of `retain(|p| import(p).is_err())` and of "
        "`for p in &paths { import(p)?; }` is retainPass / importAll of the hand model); any other statement form is an "
        "extraction failure",
        "translator target scoperesolve: the body of the loop of ScopeGraph::resolve_name is transliterated statement "
        "by statement into the little language of Model/ScopeResolveLoop.lean (locals by name, `&e` / `e.clone()` "
        "mean e, the MetaId of an import entry is dropped); any other statement or expression form is an extraction "
        "failure",
        "translator target scopepath: TypeChecker::resolve_module_part_of_path is transliterated (prologue, body of the "
        "`while` over leading supers, statements between the loops, body of the final `loop`) into the little language "
        "of Model/ScopePathLoop.lean; `parent_module` means the hand model's Graph.parentModule (tied by correspondence), "
        "the error constructors are recognised by method name / message; any other form is an extraction failure",
        "translator target scopeimportone: the three statements of TypeChecker::import are recognised by their text up to "
        "the names of the two bound locals (resolve from `scope`, leftover test, insert into `scope` under "
        "`declaration.name`); insert_import's table / key / occupied-is-error are textual facts",
        "translator target scopefacts (extract/src/targets/c13.rs): locates the consulted tables / literals by what "
        "is consulted (method names, receivers, compared variables), not by code shape",
    ]
    return ctx.finish(
        level="proof",
        rule="a class is a distinct (reference form, reference kind fn/const/type, block depth or module-level position "
             "(signature / record field / constant initialiser), outcome incl. compile-error class) tuple observed on a "
             "reference, or a distinct whole-tree outcome; evaluations count compilations, calls, get_function probes, "
             "scope-graph comparisons, oracle verdicts and discovery comparisons",
        search=search,
    )


def replay(ctx, data):
    if data.get("kind") != "failing-input":
        print(json.dumps(data, indent=1))
        return 1
    if not ctx.build_harness("c13"):
        return 1
    rep = ctx.harness("c13", ["replay", json.dumps(data["input"])])
    if not rep:
        return 1
    known = common.load_known("C13")
    bad = [v for v in rep.get("impl_violations", []) if common.match_known(known, v) is None]
    return 1 if (bad or rep.get("model_mismatches")) else 0
