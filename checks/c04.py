"""C04 — a compiled function is only obtainable under its true Rust signature."""
import json
import common

PROPS = "RotoV.Props.C04"


def search(ctx):
    # a broken tie/proof: hunt for a concrete (script signature, Rust type) pair
    # — or history of requests on one package — on which the real gate departs
    # from the documented mapping. The boundary stream of the ordinary run
    # comes first and usually has one already; the bigger run is for the rest.
    if ctx.impl_violations:
        ctx.log(f"search: the correspondence run already holds {len(ctx.impl_violations)} concrete failing input(s)")
        return
    if ctx.build_harness("c04"):
        ctx.harness("c04", ["run", ctx.seed + 7919, "thorough"], timeout=3000, name="search:c04")


def run(ctx):
    # replay files of earlier runs would be mistaken for this run's
    import glob
    import os
    for f in glob.glob(os.path.join(common.VERIF, "evidence", "replays", "C04-*.json")):
        os.remove(f)
    ctx.extract(["gate", "gatesig", "gatereg", "gatetab", "gateuf"])
    # three theorem modules over three regenerated modules, so that a change to check_roto_type / check_args /
    # get_function breaks the obligations of C04, a change to force_filtermap_types or TypeInfo::convert exactly
    # those of C04Sig and a change to a Value::resolve body or the registry exactly those of C04Reg
    parts = []

    def prove(module, extra=(), targets=()):
        for k in ("theorems", "nonvacuity_examples", "axioms"):
            ctx.coverage.pop(k, None)
        ok = ctx.prove(module, extra_modules=list(extra), extra_targets=targets)
        if ctx.coverage.get("theorems"):  # prove() overwrites these: report all modules
            parts.append({k: ctx.coverage.get(k) for k in ("theorems", "nonvacuity_examples", "axioms")})
        return ok

    prove(PROPS, ["RotoV.Lemmas.Gate", "RotoV.Model.Gate"])
    prove(PROPS + "Sig")
    prove(PROPS + "Reg")
    # how Module::functions is built (Mir::lower, lir::lower, the helper generators, declare_function): a change
    # there breaks exactly the obligations of C04Tab
    prove(PROPS + "Tab", ["RotoV.Model.GateTab"])
    # the one piece of package state a retrieval writes to (UnionFind::find compresses paths): a change to
    # find / find_ref / TypeInfo::resolve breaks exactly the obligations of C04UF
    prove(PROPS + "UF", ["RotoV.Lemmas.GateUF", "RotoV.Model.GateUF"])
    # the property about programs: the gate theorems composed with the table theorems (no definitions of its own)
    prove(PROPS + "All")
    # the driver imports Generated.Gate and Generated.GateTab: built on its own, so that a failed extraction of
    # one target breaks the obligations of its own theorem module only (the correspondence run then uses the
    # driver of the last successful build, whose model is the unchanged tree's)
    ok, out = ctx.lake_build(["rotov-driver"])
    ctx.checker_cmds.append("cd /verif/lean && lake build " + common.DRIVER_NAME)
    ctx.obligation("lake:" + common.DRIVER_NAME, ok, "" if ok else out[-1500:])
    if parts:
        ctx.coverage["theorems"] = [t for p in parts for t in p["theorems"]]
        ctx.coverage["nonvacuity_examples"] = sum(p["nonvacuity_examples"] or 0 for p in parts)
        ctx.coverage["axioms"] = {k: v for p in parts for k, v in (p["axioms"] or {}).items()}
    if ctx.build_harness("c04"):
        ctx.harness("c04", ["run", ctx.seed, ctx.tier], timeout=3000)
    ctx.trusted += [
        "TypeId is injective on the boundary types; the model's RustTy is the registry's description tree: every Value::resolve body "
        "stores under Self the description built from the entries of its own type parameters (translator target gatereg, "
        "C04Reg.registry_describes_the_type) and the correspondence run asks for hundreds of instantiations in one process",
        "TypeInfo.WF: the language's reserved global type names are not host-registered types (registration refuses them, C18)",
        "modelled, not verified: check_args / get_function are hand-written models whose source shape the translator asserts "
        "(func! arities, slice-pattern arity test; every gate step of Module::get_function an unconditional top-level statement in "
        "order; the fields of self it mentions / borrows mutably / calls methods on) and which the correspondence run ties to the code",
        "TypeInfo::resolve only path-compresses (the package state a request leaves is the state it found); "
        "derived PartialEq on Type/TypeName/ResolvedName/ScopeRef/Identifier is field-by-field equality",
    ]
    return ctx.finish(
        level="proof",
        rule="requests (script function/filtermap/test signature, requested Rust fn type) made in histories on one package: for each "
             "of 8 targets per script out of a macro-generated family of 1822 Rust fn types (177 boundary types: 20 leaves x "
             "Option/List/Result/Verdict to depth 2 + depth 3, arity 0..7; plus verdicts of the 14 payload types a filtermap body can "
             "build from unconstrained literals and of 30 neighbours of other width / signedness / float width / order) the true "
             "signature and 4-6 near misses (one leaf / nesting / "
             "constructor / argument order / arity +-1 / k parameters appended or dropped / parameter order / return / Roto-only type "
             "changed / primitive replaced by the module-registered type of the same identifier), each asked under its target, "
             "same-arity family members, the fn() and one-parameter prefixes, the neighbouring function's true type, the primitive a "
             "module-registered type is named like, unknown and generated-helper names. Scripts are compiled in 4 host environments "
             "(Val<Foo>/Val<Bar> registered globally or in modules as foo.u32, foo.String, net.i64, foo.Option, foo.bar.bool) and may "
             "re-declare reserved names (record i64 {..}, enum Option[T] {..}: pkg.i64, pkg.Option[u32]). A filtermap's payload is a "
             "parameter, a literal, or built by the body: Some(..), [..], Ok(..)/Err(..) in two statements, Verdict.Accept/Reject(..) "
             "around parameters and (positive or negated) unconstrained literals, so that the inferred signature carries literal type "
             "variables below constructors, or - as a near miss - a component nothing resolves (None, [], a lone Ok); such a filtermap "
             "is asked under every lit/litnear family member of its parameter list, and where it is granted under its true signature "
             "it is also called (in a child process, per script) and must return the value the script computes. The first 14 scripts "
             "of a run are the boundary stream (one per class: 4 re-declared primitive names x record/enum rotating with the seed, 3 "
             "re-declared constructors, 3 module environments, 2 one-sided-arity scripts, 2 literal-payload scripts). Every request "
             "of a script is made three times on the same package (in order, in reverse order, in order again) and judged against "
             "the same stateless oracle; a wrong answer is re-run on fresh packages to find the shortest history that produces it, "
             "and the first instance of every violation class is re-run in fresh processes (cold start; then with one earlier request "
             "of the worker process on another package; then the shortest run of them) so that the replay file carries what of the "
             "process - whose TypeRegistry is shared by all packages - the answer depends on. A class is distinct by "
             "(derivation label, outcome kind, mismatch class, arity), plus (round, true/wrong, label) for repeated requests and "
             "(label, same/other value) for calls. Names that are no function of the script: the first 5 scripts of every run are class "
             "representatives, whatever the seed (25 constants of 24 types; a sub-module with functions, a test, constants and a record; "
             "generic records / enums and a test named like a function; the generated clone/drop/eq helpers of a script that needs them; "
             "the ~95 functions and the constants the host registered), every generated script carries three constants (types walking a "
             "pool of 24: every leaf, (), one and two levels of every constructor) and every third a sub-module; each such name - as written, "
             "with `pkg.`, as `constant#K`, lower-cased, through the wrong module, helpers also as `clone_N` / `generated::clone_N` - is asked "
             "under `fn() -> T` for the item's own type, `fn()`, a neighbouring function's true type (representatives: also the test type and "
             "a one-parameter shape; helpers: the ABI shapes of drop / clone / eq) and must be refused; per script the real function table "
             "(hook) is compared with the table the modelled compiler pipeline builds from the declarations, and every entry of the real "
             "table that carries a signature without being a declared function is asked for under the type the table advertises",
        search=search,
    )


def replay(ctx, data):
    if data.get("kind") != "failing-input":
        print(json.dumps(data, indent=1))
        return 1
    if not ctx.build_harness("c04"):
        return 1
    inp = data["input"]
    hist = inp.get("history") or []
    print(f"function : {inp.get('function')}  (host environment {inp.get('env', 0)})")
    ph = inp.get("process_history") or []
    if ph:
        print(f"process  : {sum(len(g.get('requests', [])) for g in ph)} earlier request(s) on {len(ph)} other package(s) of the "
              f"same process ({inp.get('process_history_kind')})")
    if hist:
        print(f"history  : {len(hist)} earlier request(s) on the same package ({inp.get('history_kind')})")
    print(f"request  : get_function::<{inp.get('rust_type')}>({inp.get('name')!r})\n"
          f"expected : {inp.get('expected')}\nrecorded : {inp.get('real')}")
    if inp.get("call"):
        print(f"called   : the granted handle returned {inp.get('returned')}; the script computes {inp.get('expected_value')}")
    import os
    # the description can be long (a process history carries scripts): hand it over in a file
    os.makedirs(os.path.join(common.VERIF, "evidence", "replays"), exist_ok=True)
    path = os.path.join(common.VERIF, "evidence", "replays", ".C04-replay-input.json")
    with open(path, "w") as f:
        json.dump(inp, f)
    rep = ctx.harness("c04", ["replay", "@" + path])
    bad = bool(rep and rep.get("impl_violations"))
    if inp.get("call"):
        print("replayed : " + ("the handle granted under the documented signature still does not return the script's value" if bad
                               else "the handle granted under the documented signature now returns the script's value"))
    else:
        print("replayed : " + ("the real gate still departs from the documented mapping" if bad else "the real gate now agrees with the documented mapping"))
    return 1 if bad else 0
