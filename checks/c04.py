"""C04 — a compiled function is only obtainable under its true Rust signature."""
import json
import common

PROPS = "RotoV.Props.C04"


def search(ctx):
    # a broken tie/proof: hunt for a concrete (script signature, Rust type) pair
    # on which the real gate departs from the documented mapping
    if ctx.build_harness("c04"):
        ctx.harness("c04", ["run", ctx.seed + 7919, "thorough"], timeout=3000, name="search:c04")


def run(ctx):
    # replay files of earlier runs would be mistaken for this run's
    import glob
    import os
    for f in glob.glob(os.path.join(common.VERIF, "evidence", "replays", "C04-*.json")):
        os.remove(f)
    ctx.extract(["gate"])
    ctx.prove(PROPS, extra_modules=["RotoV.Lemmas.Gate", "RotoV.Model.Gate"])
    if ctx.build_harness("c04"):
        ctx.harness("c04", ["run", ctx.seed, ctx.tier], timeout=3000)
    ctx.trusted += [
        "TypeId is injective on the boundary types and Value::resolve registers children before parents "
        "(the model's RustTy is the registry's description tree)",
        "TypeInfo.WF: the language's reserved global type names are not host-registered types (registration refuses them, C18)",
        "modelled, not verified: check_args / get_function are hand-written models whose source shape the translator asserts "
        "(func! arities, slice-pattern arity test, step order of Module::get_function) and which the correspondence run ties to the code",
    ]
    return ctx.finish(
        level="proof",
        rule="pairs (script function/filtermap/test signature, requested Rust fn type): for each of 8 targets per script out of a "
             "macro-generated family of 1639 Rust fn types (177 boundary types: 20 leaves x Option/List/Result/Verdict to depth 2 "
             "+ depth 3, arity 0..7) the true signature and 4-6 near misses (one leaf / nesting / constructor / argument order / "
             "arity / parameter order / return / Roto-only type changed), each asked under its target, same-arity family members, "
             "unknown and generated-helper names; a class is distinct by (derivation label, outcome kind, mismatch class, arity)",
        search=search,
    )


def replay(ctx, data):
    if data.get("kind") != "failing-input":
        print(json.dumps(data, indent=1))
        return 1
    if not ctx.build_harness("c04"):
        return 1
    inp = data["input"]
    print(f"function : {inp.get('function')}\nrequest  : get_function::<{inp.get('rust_type')}>({inp.get('name')!r})\n"
          f"expected : {inp.get('expected')}\nrecorded : {inp.get('real')}")
    rep = ctx.harness("c04", ["replay", json.dumps(inp)])
    bad = bool(rep and rep.get("impl_violations"))
    print("replayed : " + ("the real gate still departs from the documented mapping" if bad else "the real gate now agrees with the documented mapping"))
    return 1 if bad else 0
