"""C10 — well-typed scripts and built-ins cannot kill the host process."""
import json
import os
import common

PROPS_B = "RotoV.Props.C10B"
PROPS_A = "RotoV.Props.C10"  # arithmetic trap theorems (another builder's file)
PROPS_C = "RotoV.Props.C10C"  # list built-ins under contention (lock events of src/value/list.rs)
PROPS_V = "RotoV.Props.C10V"  # list built-ins x element type: the vtable the lowerer writes vs its uses in list.rs


def search(ctx):
    """A proof or the tie broke: hunt for a concrete crashing input.
    1. the crash oracle again, thorough, different seed (real code, worker per case);
    2. the generated bindings evaluated by the Lean driver on edge arguments for
       a 32-bit and a 64-bit `usize` — a `panic` there is a crash of the real
       code on that target (a removed `try_into().ok()?` cannot crash a 64-bit
       host: u64 -> usize never fails there)."""
    known = common.load_known(ctx.pid)
    if any(common.match_known(known, v) is None for v in ctx.impl_violations):
        ctx.log("search: the run already produced a concrete crashing input that is not a known finding")
        return
    if ctx.build_harness("c10"):
        ctx.harness("c10", ["run", ctx.seed + 7919, "thorough"], timeout=3000, name="search:c10")
    if any(common.match_known(known, v) is None for v in ctx.impl_violations):
        return
    model_search(ctx)


def model_search(ctx):
    drv = common.env()["ROTOV_DRIVER"]
    ctx.lake_build(["rotov-driver"])  # the driver of the *current* generated definitions
    if not os.path.exists(drv):
        return
    strs = ["", "61", "68c3a96c6c6f", "e697a5e69cac", "61620a63640a"]
    idx = [0, 1, 2, 3, 5, 6, 7, 2**32 - 1, 2**32, 2**32 + 1, 2**63, 2**64 - 1]
    reqs = []
    for pw in (32, 64):
        for s in strs:
            for v in ("bytes", "chars", "lines"):
                reqs.append((pw, f"{v}_len x{s}"))
                for i in idx:
                    reqs.append((pw, f"{v}_get x{s} {i}"))
                    for j in idx:
                        reqs.append((pw, f"{v}_slice x{s} {i} {j}"))
            for n in (0, 1, 2, 2**32, 2**64 - 1):
                reqs.append((pw, f"splitn x{s} {n} x2c"))
                reqs.append((pw, f"rsplitn x{s} {n} x2c"))
            reqs.append((pw, f"repeat x{s} 3"))
            # the substring family (transliterated since round 4): a byte-offset rewrite panics in the model
            for t in ("", "61", "78", "c3a9", "6162", "e69cac"):
                for f in ("contains", "starts_with", "ends_with", "strip_prefix", "strip_suffix", "split"):
                    reqs.append((pw, f"{f} x{s} x{t}"))
        for n in (0, 1, 5):
            for i in idx:
                reqs.append((pw, f"list_get {n} {i}"))
                for j in idx[:8]:
                    reqs.append((pw, f"list_swap {n} {i} {j}"))
    text = "".join(f"c10 {pw} {r}\n" for pw, r in reqs)
    rc, out = common.run([drv], input=text, timeout=600)
    answers = out.splitlines()
    found = 0
    for (pw, r), a in zip(reqs, answers):
        if a.strip() == "panic":
            found += 1
            name = r.split()[0]
            ctx.impl_violations.append({
                "what": f"the transliterated binding `{name}` panics (inside an extern \"C\" trampoline: abort) "
                        f"on a target with {pw}-bit usize",
                "key": f"builtin-panic-model {name} usize{pw}",
                "input": {"kind": "model", "usize_bits": pw, "request": f"c10 {pw} {r}",
                          "note": "evaluated on Generated/C10Builtins.lean (the current source, transliterated); "
                                  "replay asks the Lean driver again"},
            })
    ctx.log(f"model search: {len(reqs)} requests, {found} panics")


def run(ctx):
    ctx.extract(["optables", "c10builtins", "c10locks", "c10vtable"])
    ctx.prove(PROPS_B, extra_modules=["RotoV.Lemmas.Builtins", "RotoV.Model.Builtins", "RotoV.Model.RustStd", "RotoV.Model.Clif"])
    ctx.prove(PROPS_C, extra_modules=["RotoV.Model.MutexPanic"], extra_targets=())  # independent of the driver
    ctx.prove(PROPS_V, extra_modules=["RotoV.Model.VTableFill"], extra_targets=())
    if os.path.exists(os.path.join(common.LEAN, *PROPS_A.split(".")) + ".lean"):
        ctx.prove(PROPS_A, extra_modules=["RotoV.Model.Clif", "RotoV.Model.RustStd"])
    if ctx.build_harness("c10"):
        ctx.harness("c10", ["run", ctx.seed, ctx.tier], timeout=3000)
    ctx.trusted += [
        "Cranelift instruction semantics as written in RotoV/Model/Clif.lean (sdiv/udiv/srem/urem trap conditions; "
        "validated on every boundary pair by the worker oracle, not verified)",
        "std (`str` methods, `Vec`, allocator, `Mutex`) and inetnum 0.1.1 behave as read in RotoV/Model/Builtins.lean "
        "(`str::get`, slice indexing, `split_at`, `splitn`, `lines`, `repeat`, `contains`/`starts_with`/`ends_with`/`strip_*`/"
        "`split`, `match_indices('\\n')`, `Prefix::new_relaxed`); every modelled result is "
        "compared with the real built-in on all generated cases",
        "`std::sync::Mutex` as read in RotoV/Model/MutexPanic.lean (`lock` blocks on contention and fails only when "
        "poisoned, `try_lock` fails while anyone holds the mutex, `unwrap`/`expect` of an `Err` panic); assumption: no "
        "host code panics while holding a list's lock (mutexes start unpoisoned); the contention cases of the worker "
        "oracle sample interleavings (every list built-in against a host `to_vec` holder and against itself on 4 threads)",
        "the translator's tables of std functions read as total / as panicking on some arguments (by method name, "
        "extract/src/targets/c10.rs: TOTAL_METHODS, TOTAL_PATHS, PARTIAL_METHODS, PARTIAL_PATHS) behind Binding.surface / "
        "StrFn.surface; `StringBuf` is thread-local because src/lib.rs does not export the type (read on every run)",
        "partial: an abort raised inside std or the allocator (not expressible as an argument-validation panic) is "
        "visible only to the worker oracle; memory exhaustion (`repeat` beyond ~1 MB) is a documented limit and is not generated",
    ]
    return ctx.finish(
        level="proof",
        rule="a class is a distinct (operator, integer type, operand class, outcome) for the five integer operators on "
             "boundary x boundary + random operand pairs, or a distinct (built-in, argument class, outcome kind) for "
             "all 93 registered built-ins on edge arguments (lists: built in the script and passed in by the host, "
             "empty / singleton / many), or a distinct (list built-in, element type, contention class, outcome) for the "
             "contention cases; outcome = returned / value kind / terminating signal",
        search=search,
    )


def replay(ctx, data):
    if data.get("kind") != "failing-input":
        print(json.dumps(data, indent=1))
        return 1
    inp = data["input"]
    if isinstance(inp, dict) and inp.get("kind") == "model":
        ctx.extract(["c10builtins"])
        ok, out = ctx.lake_build(["rotov-driver"])
        if not ok:
            print(out[-2000:])
            return 1
        rc, out = common.run([common.env()["ROTOV_DRIVER"]], input=inp["request"] + "\n", timeout=120)
        print(f"{inp['request']} -> {out.strip()}")
        return 1 if out.strip() == "panic" else 0
    if not ctx.build_harness("c10"):
        return 1
    rep = ctx.harness("c10", ["replay", json.dumps(inp)])
    return 1 if rep and rep.get("impl_violations") else 0
