"""C01 — compiled scripts compute the language-defined result."""
import json
import os
import common

PROPS_OPS = "RotoV.Props.C01"        # per-operator theorems T1–T3 (over Generated/OpTables)
PROPS_DCE = "RotoV.Props.C01Dce"     # T4: dead-code elimination preserves execution
PROPS_LOWER = "RotoV.Props.C01Lower" # T5: Spec value = value of the lowering model's structured MIR (composed with C08's simulation)
PROPS_LIR = "RotoV.Props.C01Lir"     # LIR layer: the model of lir/lower.rs (scalar MIR CFG -> LIR CFG) preserves execution
PROPS_MATCH = "RotoV.Props.C01Match" # match: Spec.evalArms is first-match; the guard chains of mir/lower/match_expr.rs (generated filters) are first-match
MATCH_EXTRA = ["RotoV.Model.C01MatchLower", "RotoV.Model.Spec"]
PROPS_CG = "RotoV.Props.C01Cg"       # code-generation layer: the generated control-flow arms of FuncGen::instruction emit code that runs as the LIR does
CG_EXTRA = ["RotoV.Model.C01CgBase", "RotoV.Model.C01Cg", "RotoV.Lemmas.C01CgSim", "RotoV.Lemmas.C01CgCalls", "RotoV.Model.C01Lir"]
LIR_EXTRA = ["RotoV.Model.C01Lir", "RotoV.Lemmas.C01LirSim", "RotoV.Model.C01MirRun"]
LOWER_EXTRA = ["RotoV.Model.C01Resolve", "RotoV.Model.C01MirRun", "RotoV.Lemmas.C01Agree", "RotoV.Lemmas.C01Shape",
               "RotoV.Lemmas.C01MirOps", "RotoV.Lemmas.C01SpecOps", "RotoV.Lemmas.C01MirComplete", "RotoV.Lemmas.C01ScalarCode", "RotoV.Model.TraceSpec", "RotoV.Model.LowerS", "RotoV.Lemmas.LowerS",
               "RotoV.Lemmas.LowerSim", "RotoV.Lemmas.LowerTotal", "RotoV.Lemmas.TraceSpec", "RotoV.Props.C08"]


def _ops_file():
    return os.path.join(common.LEAN, *PROPS_OPS.split(".")) + ".lean"


def search(ctx):
    """A larger, seed-shifted run of the whole-program correspondence and the
    operator table (boundary tables first, then random programs)."""
    if ctx.build_harness("c01"):
        ctx.harness("c01", ["run", ctx.seed + 104729, "thorough"], timeout=6000, name="search:c01")


def run(ctx):
    # replay files of an earlier run must not survive into this one
    import glob
    for f in glob.glob(os.path.join(common.VERIF, "evidence", "replays", "C01-*.json")):
        os.remove(f)
    ctx.extract(["optables", "dce", "c01match", "c01cg"])
    theorems, examples, axioms = [], 0, {}
    if os.path.exists(_ops_file()):
        ctx.prove(PROPS_OPS, extra_modules=["RotoV.Lemmas.Scalar", "RotoV.Model.RustStd", "RotoV.Model.Lir", "RotoV.Model.Clif"])
        theorems += ctx.coverage.get("theorems", [])
        examples += ctx.coverage.get("nonvacuity_examples", 0)
        axioms.update(ctx.coverage.get("axioms", {}))
    else:
        ctx.notes.append("RotoV/Props/C01.lean (per-operator theorems T1-T3) not present in this tree; only T4 (C01Dce) is checked")
    ctx.prove(PROPS_DCE, extra_modules=["RotoV.Lemmas.Dce", "RotoV.Model.Dce", "RotoV.Model.Spec"])
    theorems += ctx.coverage.get("theorems", [])
    examples += ctx.coverage.get("nonvacuity_examples", 0)
    axioms.update(ctx.coverage.get("axioms", {}))
    if os.path.exists(os.path.join(common.LEAN, *PROPS_LOWER.split(".")) + ".lean"):
        extra = [m for m in LOWER_EXTRA if os.path.exists(os.path.join(common.LEAN, *m.split(".")) + ".lean")]
        ctx.prove(PROPS_LOWER, extra_modules=extra)
        theorems += ctx.coverage.get("theorems", [])
        examples += ctx.coverage.get("nonvacuity_examples", 0)
        axioms.update(ctx.coverage.get("axioms", {}))
    if os.path.exists(os.path.join(common.LEAN, *PROPS_LIR.split(".")) + ".lean"):
        ctx.prove(PROPS_LIR, extra_modules=LIR_EXTRA)
        theorems += ctx.coverage.get("theorems", [])
        examples += ctx.coverage.get("nonvacuity_examples", 0)
        axioms.update(ctx.coverage.get("axioms", {}))
    if os.path.exists(os.path.join(common.LEAN, *PROPS_MATCH.split(".")) + ".lean"):
        ctx.prove(PROPS_MATCH, extra_modules=MATCH_EXTRA)
        theorems += ctx.coverage.get("theorems", [])
        examples += ctx.coverage.get("nonvacuity_examples", 0)
        axioms.update(ctx.coverage.get("axioms", {}))
    if os.path.exists(os.path.join(common.LEAN, *PROPS_CG.split(".")) + ".lean"):
        ctx.prove(PROPS_CG, extra_modules=CG_EXTRA)
        theorems += ctx.coverage.get("theorems", [])
        examples += ctx.coverage.get("nonvacuity_examples", 0)
        axioms.update(ctx.coverage.get("axioms", {}))
    ctx.coverage["theorems"] = theorems
    ctx.coverage["nonvacuity_examples"] = examples
    ctx.coverage["axioms"] = axioms
    if ctx.build_harness("c01"):
        ctx.harness("c01", ["run", ctx.seed, ctx.tier], timeout=6000)
    ctx.trusted += [
        "the reference interpreter RotoV/Model/Spec.lean is the reading of the manual (docs/source/reference/language_reference.md) "
        "that defines 'the language-defined result'; IEEE-754 operations are Lean's native Float/Float32 in the driver",
        "Cranelift code generation, LIR control flow and the host ABI are exercised, not modelled: below MIR, whole-program "
        "correspondence is a differential run (the quantifier over programs and inputs is sampled)",
        "T5 (Props/C01Lower) is a theorem about the lowering model Model/LowerS.lean (C08's model of Lowerer::expr); that the "
        "model's structured MIR is the compiler's MIR rests on the IR-level comparison with the real MIR dump of every function of "
        "the class representatives and of generated programs of the fragment on every run (hook verif_hooks::c08::dump), and on "
        "C08's c08order skeletons; drops / stack frames / the label layout are outside the model",
        "the LIR layer (Props/C01Lir) is a theorem about Model/C01Lir.lean; that this model is lir/lower.rs on the scalar vocabulary rests "
        "on running it on the real MIR of every function of the class representatives and generated fragment programs and comparing with "
        "the real LIR (hook verif_hooks::c01::stage_pairs) on every run; its LIR semantics is this project's reading of the LIR",
        "match_chains_first_match_partial (Props/C01Match) is a theorem about Model/C01MatchLower.lean, a hand model of the switch / "
        "guard-chain arrangement of mir/lower/match_expr.rs whose decisions (chain filters, needs_default, guard switch case) are the "
        "generated Generated/C01Match and whose source shape the translator checks fragment by fragment; that the compiled match behaves as "
        "the arrangement says rests on the differential run of the match / match-order class representatives (JIT vs Spec) on every run; "
        "enum values in Model/Spec carry constructor NAMES, the harness prints the same names into the Roto source",
        "the code-generation layer (Props/C01Cg) is a theorem about Model/C01Cg.lean: the builder interface of Model/C01CgBase.lean is this "
        "project's reading of cranelift-frontend 0.127 (Switch::set_entry panics on a duplicate index, Switch::emit goes to the entry equal to "
        "the value and to `otherwise` when there is none; one CLIF block per LIR label); the arms Jump / Switch / Assign / Return are the "
        "re-translated Generated/C01Cg, the dispatch of the other instruction kinds, FuncGen::entry_block and everything below the builder "
        "(expansion of Switch into br_table / brif, SSA construction, instruction selection) are not modelled; tie: cRun on the emitted code of "
        "the model's LIR of the real MIR gives the Spec's value on every tuple (c01 lirrun), and the differential run of the real JIT",
        "the `char` class representatives encode a char as its code point (u32 with == / != only) for the Spec and the harness interpreter; "
        "the Roto source the compiler sees uses `char` and character literals",
        "the `for` class representatives: Model/Spec has no lists; the oracle is the Spec on the unrolling of a loop over a list LITERAL "
        "(elements evaluated once, in order, before the first iteration; one scope per element) — this project's reading of the manual",
        "the abstract CFG of Model/Dce.lean stands for mir::Item.blocks; its tie is the translator target `dce` plus running "
        "Dce.dce on the real pre-DCE CFG of every generated program (hook verif_hooks::c01::cfgs)",
    ]
    return ctx.finish(
        level="proof",
        rule="class representatives first (seed-independent, JIT vs Spec vs harness interpreter, bit patterns, NaNs canonicalised): "
             "match — enums of 2..5 variants with and without payloads x every non-empty set of variants with arms of their own (+ `_`), "
             "`_` alone, reversed, all+`_`, guarded arms of one variant, guards with effects, nested / examinee / arithmetic / loop / "
             "parameter / unit forms, each run on EVERY variant; match-order — every well-typed sequence of <= 4 arms over variants and `_`, "
             "guarded or not, on the built-in Option and user enums x every combination of guard outcomes x every variant; float — 66 nested "
             "unary/binary operator shapes on f32/f64 x boundary operand pairs (+-0, +-1, +-inf, NaN, subnormals, MAX, equal operands); char — 17 "
             "shapes of == / != on characters (helpers, literals, variables, parameters, if-else values, loop conditions) over code points that differ in the "
             "low byte / above it / above 16 bits x 90 selector tuples, and 7 programs with char parameters / results called on every pair / triple of 14 boundary code points; for — 13 shapes of `for x in [..] { .. }` over list literals (the Spec runs the language-defined unrolling) x 216 i32 boundary triples. "
             "operator table: every (operator, type) x boundary^2 + random operands, JIT vs Spec; programs: type-directed "
             "generator (helpers, (mutual) recursion, while, if/else, early return, compound assignment, shadowing, dead code; every other "
             "program declares enum types with 2..5 variants and matches on them: arm shapes incl. one variant + `_`, guards, nested) x 30 "
             "argument tuples (boundary, random, small); T5 tie: 18 class representatives (one per construct of the fragment, two with functions that return nothing) first, then "
             "generated i32/bool programs with variables named by level: Spec value = composed-model value = JIT value on every tuple, and "
             "the model's structured MIR = the real MIR dump of every function, the LIR model on the real MIR = the real LIR of every function, and mRun (real MIR) = lRun (model LIR) = cRun (code the cg model emits for it) = Spec value; a class is distinct by (type, operator, outcome) in the table, by program "
             "text with >=1 execution where the Spec yields a value and the JIT agrees, by (construct set, arg type, ret type), or (t5:) by "
             "construct set of a fragment program whose MIR comparison succeeded on all functions, or (rep:) by class representative with "
             "the number of distinct results it was observed with",
        search=search,
    )


def replay(ctx, data):
    if data.get("kind") != "failing-input":
        print(json.dumps(data, indent=1))
        return 1
    if not ctx.build_harness("c01"):
        return 1
    exe = os.path.join(common.TARGET, "debug", "c01")
    rc, out = common.run([exe, "replay", json.dumps(data["input"])], cwd=common.VERIF, timeout=900)
    rep = None
    for line in out.splitlines():
        if line.startswith("HARNESS-REPORT "):
            rep = json.loads(line[len("HARNESS-REPORT "):])
        else:
            print(line)
    failed = rep is None or bool(rep.get("impl_violations")) or bool(rep.get("model_mismatches"))
    print("REPLAY: " + ("the failure reproduces" if failed else "no failure on this tree"))
    return 1 if failed else 0
