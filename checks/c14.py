"""C14 — constants are evaluated once, in dependency order, before any call."""
import json
import common

PROPS = "RotoV.Props.C14"


def search(ctx):
    if ctx.impl_violations:
        # the correspondence run already has concrete failing inputs
        return
    if ctx.build_harness("c14"):
        ctx.harness("c14", ["run", ctx.seed + 7919, "thorough"], timeout=3000, name="search:c14")


def run(ctx):
    ctx.extract(["c14emit", "c14read"])
    ctx.prove(PROPS, extra_modules=["RotoV.Model.Tarjan", "RotoV.Model.TarjanLir", "RotoV.Lemmas.Tarjan", "RotoV.Lemmas.TarjanCtx", "RotoV.Lemmas.TarjanNoPanic", "RotoV.Lemmas.TarjanLir"])
    first = (list(ctx.coverage.get("theorems", [])), ctx.coverage.get("nonvacuity_examples", 0), dict(ctx.coverage.get("axioms", {})))
    # theorems over the generated definitions, in a module of their own: a change
    # of the emission order / of codegen's loop breaks exactly these
    # (and, likewise, how a read of a constant is lowered: Props/C14Read over Generated/C14Read)
    for suffix, extra in (("Emit", []), ("Read", ["RotoV.Model.TarjanRead", "RotoV.Lemmas.TarjanRead"])):
        ctx.prove(PROPS + suffix, extra_modules=extra)
        ctx.coverage["theorems"] = first[0] + [t for t in ctx.coverage.get("theorems", []) if t not in first[0]]
        ctx.coverage["nonvacuity_examples"] = first[1] + (ctx.coverage.get("nonvacuity_examples", 0) if first[0] else 0)
        ctx.coverage["axioms"] = {**first[2], **ctx.coverage.get("axioms", {})}
        first = (list(ctx.coverage["theorems"]), ctx.coverage["nonvacuity_examples"], dict(ctx.coverage["axioms"]))
    if ctx.build_harness("c14"):
        ctx.harness("c14", ["run", ctx.seed, ctx.tier], timeout=3000)
    ctx.trusted += [
        "hand-written model RotoV/Model/Tarjan.lean of value_cycle.rs (tarjan, strongly_connect, find_compilation_order, "
        "context_check, determine_uses_context) and of the codegen item loop: tied on every run by exact comparison with the "
        "hook's dump (components, order / erring constant, initialiser log) for every generated program",
        "order_topological is established per run by the verified checker validOrder on the implementation's real components "
        "(for Tarjan's algorithm itself, totality is proved in general; the order property only on the decided instances)",
        "cranelift-jit's finalize_definitions failing loudly on a call to an undefined function is assumed (modelled as panic)",
        "edge collection in typechecker/expr.rs is tied per generated program: the collected graph (hook, after a type-check-only "
        "pass) must contain exactly the edges of the generated dependency structure (Lean edgesMissing both ways; 13 context "
        "use-site forms, 6 constant types with 2-5 read forms each, 8 syntactic shapes, 5 path forms, fn / filtermap / test items)",
        "hand-written model RotoV/Model/TarjanLir.lean of codegen's loop over the lowered item list: tied by the translator target "
        "c14emit (emission order of Lowerer::program, action sequence of both arms of the define loop) and by running it on the "
        "hook's item list of every real compilation (must complete; run order = observed initialiser log)",
        "the bodies of generated clone/drop/eq functions are not modelled, only the symbols every body refers to (hook take_lir)",
    ]
    return ctx.finish(
        level="proof",
        rule="a case is a generated dependency graph (2-9 constants/functions over 4 modules, DAG + function-only cycles, "
             "or with an injected constant cycle / transitive context use; constants of 6 types, context reads in 13 use-site "
             "forms, local compound values, several read sites of one constant on different paths in 7 shapes, context reads inside / "
             "behind rings of mutually recursive functions) in one of 4 declaration orders; the first 431 graphs of every run are class "
             "representatives (form x distance tables, read-site shape x type x place, ring x entry x name-order x module pattern); a "
             "class is distinct by (expected outcome, observed outcome, #constants, #functions, #edges, function-cycle present, "
             "#modules used, order variant, compound type present, context form, where the SCC pass entered a ring with a context "
             "read, first read-site shape)",
        search=search,
    )


def replay(ctx, data):
    if data.get("kind") != "failing-input":
        print(json.dumps(data, indent=1))
        return 1
    if not ctx.build_harness("c14"):
        return 1
    inp = data["input"]
    case = inp.get("case", inp)
    rep = ctx.harness("c14", ["replay", json.dumps(case)])
    if rep is None:
        # the replayed program killed the process (e.g. a constant reading the
        # context at compile time): that is the failure
        print("replay: the harness process died on this input")
        return 1
    return 1 if (rep.get("impl_violations") or rep.get("model_mismatches")) else 0
