"""C17 — built-in methods follow their documented meaning on every argument."""
import json
import common

PROPS = "RotoV.Props.C17"


def search(ctx):
    """A proof or the tie is broken: hunt for a concrete call on which the real
    built-in differs from its documented meaning (boundary tables first — they
    open every runner's case stream — then 60 000 generated tuples per built-in)."""
    if ctx.build_harness("c17"):
        ctx.harness("c17", ["run", ctx.seed + 7919, "thorough"], timeout=3000, name="search:c17")


def run(ctx):
    # 1. binding table regenerated from basic.rs / string.rs / string_buf.rs
    # ... and the view bodies of string.rs as Lean DEFINITIONS (Generated/C17Views.lean): the
    # theorems gen_chars_* / gen_lines_* of Props/C17 are stated over them
    ctx.extract(["bindings", "c17views"])
    # the driver does not depend on the theorems: build it first so the
    # correspondence run has its model even when a proof is broken
    ok, out = ctx.lake_build(["rotov-driver"])
    ctx.obligation("build:rotov-driver", ok, out[-1500:])
    # 2. theorems against the regenerated table and the view models
    ctx.prove(PROPS, extra_modules=["RotoV.Lemmas.Strings", "RotoV.Lemmas.StringsGen", "RotoV.Model.Strings", "RotoV.Model.BuiltinSpec"])
    # 3. correspondence: every built-in through a script vs std/inetnum oracle and Lean model
    if ctx.build_harness("c17"):
        ctx.harness("c17", ["run", ctx.seed, ctx.tier], timeout=3000)
    ctx.trusted += [
        "Rust std (str methods, Display, float functions) and inetnum behave as documented: they are the oracle, not verified",
        "std vocabulary of Model/Strings.lean (is_char_boundary, str::get, char_indices, match_indices, lines) is std's documented meaning; "
        "tied to real std by the correspondence run (Lean spec answers are compared with std on every case)",
        "usize is 64 bits (u64 -> usize conversions in basic.rs never fail)",
        "the hand transcription of string.rs view bodies (Model/Strings.lean, what the Lean driver runs) is tied by correspondence, by the generated "
        "`std` expression text for one-expression bodies, and — for StringChars::get/slice and StringLines::slice — by theorems equating it with the "
        "definitions GENERATED from string.rs (gen_chars_slice_is_model, gen_lines_slice_is_model); the statement translator (C10's, reused) and its "
        "named std vocabulary (Model/Builtins.lean: boundary iterator, offsets after newlines, skip/take loop reading) are trusted",
    ]
    return ctx.finish(
        level="proof",
        rule="a class is (built-in, argument class, outcome class): argument class = string class (empty/ascii/multi-byte/combining/"
             "trailing-newline/inner-newline/crlf/bare-cr) x index position relative to the byte/char/line length "
             "(0, <len, len-1, len, len+1, >len+1, huge, mid-code-point) for the views; float class (zero/subnormal/half/integral/"
             "large/inf/nan, sign); for to_lowercase/to_uppercase the case-mapping signatures present (upper/lower/titlecase/uncased, expanding, "
             "utf8len-changing), for trim* the White_Space kind of the first and last char; for StringBuf histories the history shape "
             "(sequence of push_char/push_string/as_string, handle or alias) x initial contents; integer sign/boundary; address family and prefix-length class; list length",
        search=search,
    )


def replay(ctx, data):
    if data.get("kind") != "failing-input":
        print(json.dumps(data, indent=1))
        return 1
    if not ctx.build_harness("c17"):
        return 1
    ctx.lake_build(["rotov-driver"])
    inp = data["input"]
    rep = ctx.harness("c17", ["replay", json.dumps({"builtin": inp.get("builtin"), "args": inp.get("args", [])})])
    if rep:
        for v in rep.get("impl_violations", []):
            print("REPLAY: " + v.get("what", ""))
    return 1 if rep is None or rep.get("impl_violations") or rep.get("model_mismatches") else 0
