"""C08 — side effects happen in source order, as often as control flow dictates."""
import glob
import json
import os
import common

PROPS = "RotoV.Props.C08"              # T1 order_spec, T2 lowerS_trace_partial, T3 dce_preserves_trace
PROPS_SOURCE = "RotoV.Props.C08Source"  # regenerated step skeletons of the Lowerer functions, pinned
PROPS_LIR = "RotoV.Props.C08Lir"        # one stage down: the MIR -> LIR block lowering keeps the order of calls (generated tables `mirlower`)
EXTRA = ["RotoV.Model.TraceSpec", "RotoV.Lemmas.TraceSpec", "RotoV.Lemmas.TraceSpecMono", "RotoV.Model.LowerS", "RotoV.Lemmas.LowerS", "RotoV.Lemmas.LowerSim", "RotoV.Lemmas.LowerTotal",
         "RotoV.Lemmas.Dce", "RotoV.Model.Dce", "RotoV.Props.C01Dce"]


def search(ctx):
    """A larger, seed-shifted run of the trace correspondence: the hand-written
    corpus (one program per clause of the statement and per class: written order of
    record fields, field targets) first, then generated
    programs; every difference is minimised to a small script + arguments."""
    if ctx.impl_violations:
        # the quick run (class representatives first) already has concrete failing inputs
        ctx.log(f"search skipped: {len(ctx.impl_violations)} failing inputs already found")
        return
    if ctx.build_harness("c08"):
        ctx.harness("c08", ["run", ctx.seed + 15485863, "search"], timeout=6000, name="search:c08")


def run(ctx):
    for f in glob.glob(os.path.join(common.VERIF, "evidence", "replays", "C08-*.json")):
        os.remove(f)
    ctx.extract(["dce", "c08order", "mirlower"])
    extra = [m for m in EXTRA if os.path.exists(os.path.join(common.LEAN, *m.split(".")) + ".lean")]
    theorems, examples, axioms = [], 0, {}
    for module, more in ((PROPS, extra), (PROPS_SOURCE, []), (PROPS_LIR, ["RotoV.Model.MirLower"])):
        ctx.prove(module, extra_modules=more)
        theorems += ctx.coverage.get("theorems", [])
        examples += ctx.coverage.get("nonvacuity_examples", 0)
        axioms.update(ctx.coverage.get("axioms", {}))
    ctx.coverage["theorems"] = theorems
    ctx.coverage["nonvacuity_examples"] = examples
    ctx.coverage["axioms"] = axioms
    if ctx.build_harness("c08"):
        ctx.harness("c08", ["run", ctx.seed, ctx.tier], timeout=6000)
    ctx.trusted += [
        "the order specification RotoV/Model/TraceSpec.lean is this project's reading of the manual "
        "(docs/source/reference/language_reference.md) — it defines 'the documented order' and is pinned by the "
        "order_spec theorems of Props/C08.lean",
        "whole programs: the quantifier over programs and inputs is sampled (differential run of the real compiled "
        "script against the Lean trace function); type checker, LIR lowering, Cranelift and the host ABI are exercised, not modelled",
        "the host functions log every call (function id, argument values) into one ordered log; their results are the "
        "pure functions `hostSem` gives; the registered host type `Tok` logs in its `to_string`, `peek` and `PartialEq::eq` "
        "(the calls the compiler inserts implicitly for an f-string part / for `==`), not in Clone/Drop",
    ]
    return ctx.finish(
        level="proof",
        rule="280 hand-written programs run first (16: one per clause of the statement; 36: an operator that desugars to a runtime call "
             "(string +, list +) with a lazy left operand x effects nested in the right operand; 48: host calls the compiler inserts "
             "implicitly — f-strings with 2 and 3 interpolated parts x every tuple of part kinds {host value with a logging to_string, "
             "effectful call, block with effect}, `==`/`!=` on host values; 45: a bare variable / field path as a constructor component "
             "that a later component assigns, per constructor kind; 88: a record literal of R, P (two fields), G[T], H[T] in every "
             "order of its fields x shapes; 12: a field as target of (compound) assignment / left operand, per field; "
             "35: match, pattern variant x examinee variant, one named variant + `_` and a guarded `_` between two variants) "
             "+ type-directed generated programs (record literals in a random written order, typed or anonymous, of four record "
             "types; host values in f-string parts, under ==/!=, as method receivers) whose "
             "sub-expressions at every position call logging host functions, x 8 argument tuples each; a class is "
             "distinct by program text with >= 1 non-empty agreeing trace, or by position signature "
             "(parent construct, child index, effectful child construct)",
        search=search,
    )


def replay(ctx, data):
    if data.get("kind") != "failing-input":
        print(json.dumps(data, indent=1))
        return 1
    if not ctx.build_harness("c08"):
        return 1
    exe = os.path.join(common.TARGET, "debug", "c08")
    rc, out = common.run([exe, "replay", json.dumps(data["input"])], cwd=common.VERIF, timeout=900)
    rep = None
    for line in out.splitlines():
        if line.startswith("HARNESS-REPORT "):
            rep = json.loads(line[len("HARNESS-REPORT "):])
        else:
            print(line)
    failed = rep is None or bool(rep.get("impl_violations")) or bool(rep.get("model_mismatches"))
    print("REPLAY: " + ("the failure reproduces" if failed else "no failure on this tree"))
    return 1 if failed else 0
