"""C11 — function handles keep alive exactly what they need (hot reload safe)."""
import json
import common

PROPS = "RotoV.Props.C11"
MODULES = ["RotoV.Lemmas.Lifetime", "RotoV.Lemmas.LifetimeOps", "RotoV.Lemmas.LifetimeKeep", "RotoV.Lemmas.LifetimeAddr",
           "RotoV.Model.Lifetime", "RotoV.Model.LifetimeKeep", "RotoV.Model.LifetimeAddr"]


def search(ctx):
    """A theorem stopped checking against the regenerated facts (or the model
    and the implementation disagree): hunt for a concrete history on which the
    property fails on the real code."""
    if ctx.impl_violations:
        return
    if ctx.build_harness("c11"):
        # quick tier: the class representatives again, then random and short exhaustive histories for ~2.5 minutes
        # (the harness stops by itself); thorough tier: the full thorough run
        mode = "thorough" if ctx.tier == "thorough" else "search"
        ctx.harness("c11", ["run", ctx.seed + 7919, mode], timeout=3000 if mode == "thorough" else 600, name="search:c11")


def run(ctx):
    ctx.extract(["lifetime"])
    ctx.prove(PROPS, extra_modules=MODULES)
    if ctx.build_harness("c11"):
        ctx.harness("c11", ["run", ctx.seed, ctx.tier], timeout=3000)
    ctx.trusted += [
        "the translator's reading of Drop for RotoConstant (statement by statement; a condition must be a test of the "
        "constant's size against 0, anything else is an extraction failure) and of the registered-function collection "
        "(field type + insertion statement in codegen); that a map keyed by TypeId collapses closures of one closure "
        "expression is Rust's typing of closures",
        "std::sync::Arc (strong count; the value is dropped when the last clone is dropped), HashMap/Vec drop "
        "their elements, and Rust drops struct fields in declaration order (language rule)",
        "cranelift JITModule::free_memory releases the code and nothing else does (not verified); that freed JIT "
        "memory is really unmapped / never reused is runtime behaviour outside the model — only sampled by "
        "valgrind memcheck in the thorough tier",
        "rustc's closure capture rules (edition >= 2021: a `move` closure that uses `self` as a whole owns all of "
        "it, one that only names fields owns only those and the rest of `self` is dropped at the end of the function) "
        "— the translator applies them to the tokens of `into_func` inside `macro_rules! call_impl`",
        "the translator's reading of the code generator: every address baked into the code is an `iconst` whose "
        "value expression shows a pointer cast, every data object goes through declare/define_data; the holder of "
        "the pointee is found through locals and ModuleBuilder fields up to `finalize`",
        "the value a script's main() computes is the language-level result (C01's business); C11 only asks that "
        "it does not change over the handle's life",
    ]
    return ctx.finish(
        level="proof",
        rule="histories on the real API: first the class representatives (last owner of a module = handle / clone / "
             "closure made by into_func / test case × order of dropping package, runtime, other handles × drop on another "
             "thread × plain and context runtime; every resource kind alone, among them a zero-sized script constant, two "
             "registered closures made by one closure expression — both / only the first / only the second called —, a "
             "zero-sized closure), then every history = [build runtime, register constants, register closure, register "
             "further closures] ++ "
             "suffix (≤ 7 ops quick / ≤ 8 thorough, one representative per set of identical handle clones / closures, "
             "ops: compile, get, clone, into_func, drop) ending in a drop, plus random histories (≤ 2 runtimes, ≤ 6 "
             "compilations, drops on another thread 1/3); scripts read tracked script constants, the registered constant, "
             "the registered closure, zero-sized script constants (z of them), the further closures selected by a mask and (flag ud) string literals, f-string pieces, list literals, IP literals and "
             "String / List script constants through checksums; after every step the heap is scribbled over, every "
             "tracked resource counted and every live handle / closure called; a class is distinct by (drop kind, set "
             "of resource kinds it released, number of runtimes/packages/handles still alive)",
        search=search,
    )


def replay(ctx, data):
    if data.get("kind") != "failing-input":
        print(json.dumps(data, indent=1))
        return 1
    if not ctx.build_harness("c11"):
        return 1
    inp = data["input"]
    rep = ctx.harness("c11", ["replay", json.dumps({"history": inp["history"]})])
    if rep is None:
        return 1
    for v in rep.get("impl_violations", []):
        print("REPLAY-VIOLATION", v.get("key"), "-", v.get("what"))
    return 1 if rep.get("impl_violations") else 0
