"""C11 — function handles keep alive exactly what they need (hot reload safe)."""
import json
import common

PROPS = "RotoV.Props.C11"
MODULES = ["RotoV.Lemmas.Lifetime", "RotoV.Lemmas.LifetimeOps", "RotoV.Model.Lifetime"]


def search(ctx):
    """A theorem stopped checking against the regenerated facts (or the model
    and the implementation disagree): hunt for a concrete history on which the
    property fails on the real code."""
    if ctx.impl_violations:
        return
    if ctx.build_harness("c11"):
        ctx.harness("c11", ["run", ctx.seed + 7919, "thorough"], timeout=3000, name="search:c11")


def run(ctx):
    ctx.extract(["lifetime"])
    ctx.prove(PROPS, extra_modules=MODULES)
    if ctx.build_harness("c11"):
        ctx.harness("c11", ["run", ctx.seed, ctx.tier], timeout=3000)
    ctx.trusted += [
        "std::sync::Arc (strong count; the value is dropped when the last clone is dropped), HashMap/Vec drop "
        "their elements, and Rust drops struct fields in declaration order (language rule)",
        "cranelift JITModule::free_memory releases the code and nothing else does (not verified); that freed JIT "
        "memory is really unmapped / never reused is runtime behaviour outside the model — only sampled by "
        "valgrind memcheck in the thorough tier",
        "the value a script's main() computes is the language-level result (C01's business); C11 only asks that "
        "it does not change over the handle's life",
    ]
    return ctx.finish(
        level="proof",
        rule="histories on the real API: every history = [build runtime, register constant, register closure] ++ "
             "suffix (≤ 7 ops quick / ≤ 8 thorough, one representative per set of identical handle clones) ending in "
             "a drop, plus random histories (≤ 2 runtimes, ≤ 6 compilations, drops on another thread 1/3); after every "
             "step every live handle is called and every tracked resource counted; a class is distinct by (drop kind, "
             "set of resource kinds it released, number of runtimes/packages/handles still alive)",
        search=search,
    )


def replay(ctx, data):
    if data.get("kind") != "failing-input":
        print(json.dumps(data, indent=1))
        return 1
    if not ctx.build_harness("c11"):
        return 1
    inp = data["input"]
    rep = ctx.harness("c11", ["replay", json.dumps({"history": inp["history"]})])
    if rep is None:
        return 1
    for v in rep.get("impl_violations", []):
        print("REPLAY-VIOLATION", v.get("key"), "-", v.get("what"))
    return 1 if rep.get("impl_violations") else 0
