"""C18 — registration is validated and makes items reachable where declared."""
import json
import common

PROPS = "RotoV.Props.C18"
PROPS_USE = "RotoV.Props.C18Use"
PROPS_PASSES = "RotoV.Props.C18Passes"
PROPS_HISTORY = "RotoV.Props.C18History"
PROPS_NAMES = "RotoV.Props.C18Names"
PROPS_DECLTYPE = "RotoV.Props.C18DeclType"
PROPS_DECLRT = "RotoV.Props.C18DeclRuntimeType"


def search(ctx):
    # boundary table and the library!-built fixtures first (they are the head of every run), then a
    # bigger random run.  The driver does not import Generated/FlattenUse.lean, so it builds (and the
    # fixtures decide with a concrete use declaration) even when that extraction or its theorem broke.
    ctx.lake_build(["rotov-driver"])
    known = common.load_known(ctx.pid)
    if any(common.match_known(known, v) is None for v in ctx.impl_violations):
        return  # the quick run already holds a concrete failing input on the real code
    if ctx.build_harness("c18"):
        ctx.harness("c18", ["run", ctx.seed + 7919, "thorough"], timeout=3000, name="search:c18")


def run(ctx):
    ctx.extract(["keywords", "flattenuse", "regpasses", "itemnames", "decltype", "declrtype"])
    # three theorem modules, so that a change to the macro breaks exactly the T5 obligations, a change to the pass
    # structure of Rt::add exactly those of C18Passes and a change to the lexer's keyword table the others
    parts = []

    def prove(module, extra=()):
        for k in ("theorems", "nonvacuity_examples", "axioms"):
            ctx.coverage.pop(k, None)
        ok = ctx.prove(module, extra_modules=list(extra))
        if ctx.coverage.get("theorems"):  # prove() overwrites these: report all modules
            parts.append({k: ctx.coverage.get(k) for k in ("theorems", "nonvacuity_examples", "axioms")})
        return ok

    ok1 = prove(PROPS, ["RotoV.Lemmas.Registration", "RotoV.Lemmas.RegistrationUse",
                        "RotoV.Lemmas.RegistrationOps", "RotoV.Lemmas.RegistrationClosed",
                        "RotoV.Lemmas.RegistrationOrder", "RotoV.Lemmas.RegistrationExact",
                        "RotoV.Lemmas.RegistrationDefects", "RotoV.Lemmas.RegistrationReach",
                        "RotoV.Lemmas.RegistrationAccepts", "RotoV.Lemmas.RegistrationOrigin", "RotoV.Lemmas.RegistrationKind",
                        "RotoV.Model.Registration",
                        "RotoV.Model.RegistrationSrc"])
    # histories of adds with rejected adds in them (a rejected add is the identity; T1/T2/T4 over histories)
    ok4 = prove(PROPS_HISTORY, ["RotoV.Lemmas.RegistrationSession", "RotoV.Model.RegistrationSession"])
    # library!: the name every item is registered under (regenerated from macros/src/lib.rs) is the identifier written
    ok5 = prove(PROPS_NAMES, ["RotoV.Model.RegistrationMacroNames"])
    ok2 = prove(PROPS_USE, ["RotoV.Lemmas.UseTree", "RotoV.Model.UseTree"])
    # the theorems that mention the regenerated pass structure (pass order, per-arm scope, declare_import walk)
    ok3 = prove(PROPS_PASSES)
    # the decision of Rt::declare_type (its guards over the registered entries, regenerated): "a Rust type is registered
    # twice" is decided on the Rust type alone, whatever the identifier and the scope
    # + the invariant of the two indexes of Vec<RuntimeType> established for every reachable runtime
    ok6 = prove(PROPS_DECLTYPE, ["RotoV.Model.RegistrationDeclType", "RotoV.Lemmas.RegistrationTypeIndex"])
    # TypeChecker::declare_runtime_type as facts (target declrtype): the primitive shortcut looks in the registration's
    # own scope only, declares nothing; otherwise the own name is inserted
    ok7 = prove(PROPS_DECLRT)
    if parts:
        ctx.coverage["theorems"] = [t for p in parts for t in p["theorems"]]
        ctx.coverage["nonvacuity_examples"] = sum(p["nonvacuity_examples"] or 0 for p in parts)
        ctx.coverage["axioms"] = {k: v for p in parts for k, v in (p["axioms"] or {}).items()}
    ok2 = ok2 and ok3 and ok4 and ok5 and ok6 and ok7
    if not (ok1 and ok2):
        ctx.lake_build(["rotov-driver"])
    if ctx.build_harness("c18"):
        ctx.harness("c18", ["run", ctx.seed, ctx.tier], timeout=3000)
    ctx.trusted += [
        "the lexer's verdict on a name (token kind, whether a second token follows, whether the token spans the "
        "name) is a parameter of the model; the harness supplies it for a fixed pool of names",
        "scopes are named by their path (quotient by scope numbering); Vec<RuntimeType> is kept as its two indexes",
        "hand-written model of Rt::add tied to the source (a) by the translator target regpasses: pass order, the scope "
        "every pass starts from, what every `match item` arm of every pass does and with which scope (resolved through "
        "lets and helper methods), the walk / registration scope of declare_import = the facts the model embodies "
        "(theorem passes_as_modelled, decided on every run) and (b) by the differential run (outcome incl. error kind, "
        "resolution of every probed path); the bodies of the leaf functions (declare_type / declare_function / "
        "declare_constant / check_name, the scope graph's insert_*) are tied by (b) only; the quantifier over "
        "libraries is sampled there",
        "Rt::declare_type: its guards over the entries of self.types are regenerated (target decltype) as Boolean functions "
        "of (same Rust type, same identifier, same scope) and proved to be the model's two early exits on every runtime a "
        "history of adds can reach (the invariant that ties the model's two indexes is proved, not assumed); the translator "
        "accepts only scans whose receiver is `self.types.iter()`; TypeChecker::declare_runtime_type is regenerated as facts "
        "(target declrtype: the primitive shortcut looks in the registration's own scope, non-recursively, applies to "
        "Primitive | List, declares nothing; otherwise insert_type under the own name, clash propagated) = what the model's "
        "declareType embodies; ScopeGraph::insert_type / insert_declaration / resolve_name are tied by the differential run only",
        "script-side name lookup is modelled for a fresh script at top level (root declarations, then root imports)",
        "library!: flatten_use_tree is regenerated from macros/src/lib.rs by a transliterator for list-functional Rust "
        "(extract/src/targets/c18.rs, mod listfn) and proved equal to the specification for all use trees; syn's parse "
        "of the `use` declaration into syn::UseTree and the rest of the expansion (to_tokens) are tied by the "
        "library!-built fixtures only (hook dump of the built Library vs the written tree, every imported name "
        "resolved from a script); a leading `self::` / `super::` / `crate::` segment is not modelled",
    ]
    return ctx.finish(
        level="proof",
        rule="a class is a distinct (number of adds, module depth, injected defect kind, outcome per add, longest use "
             "path, number of probed paths) signature of a session, or a distinct shape of a `use` tree handed to library! "
             "(nesting of groups and member path lengths); every session is run on 2-24 item orders",
        search=search,
    )


def replay(ctx, data):
    if data.get("kind") != "failing-input":
        print(json.dumps(data, indent=1))
        return 1
    if not ctx.build_harness("c18"):
        return 1
    rep = ctx.harness("c18", ["replay", json.dumps(data["input"])])
    return 1 if rep and (rep.get("impl_violations") or rep.get("model_mismatches")) else 0
