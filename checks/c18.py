"""C18 — registration is validated and makes items reachable where declared."""
import json
import common

PROPS = "RotoV.Props.C18"


def search(ctx):
    # boundary table first (it is the head of every run), then a bigger random run
    if ctx.build_harness("c18"):
        ctx.harness("c18", ["run", ctx.seed + 7919, "thorough"], timeout=3000, name="search:c18")


def run(ctx):
    ctx.extract(["keywords"])
    ctx.prove(PROPS, extra_modules=["RotoV.Lemmas.Registration", "RotoV.Model.Registration"])
    if ctx.build_harness("c18"):
        ctx.harness("c18", ["run", ctx.seed, ctx.tier], timeout=3000)
    ctx.trusted += [
        "the lexer's verdict on a name (token kind, whether a second token follows, whether the token spans the "
        "name) is a parameter of the model; the harness supplies it for a fixed pool of names",
        "scopes are named by their path (quotient by scope numbering); Vec<RuntimeType> is kept as its two indexes",
        "hand-written model of Rt::add tied to the source by the differential run only (outcome incl. error kind, "
        "resolution of every probed path); the quantifier over libraries is sampled there",
        "script-side name lookup is modelled for a fresh script at top level (root declarations, then root imports)",
    ]
    return ctx.finish(
        level="proof",
        rule="a class is a distinct (number of adds, module depth, injected defect kind, outcome per add, longest use "
             "path, number of probed paths) signature of a session; every session is run on 2-24 item orders",
        search=search,
    )


def replay(ctx, data):
    if data.get("kind") != "failing-input":
        print(json.dumps(data, indent=1))
        return 1
    if not ctx.build_harness("c18"):
        return 1
    rep = ctx.harness("c18", ["replay", json.dumps(data["input"])])
    return 1 if rep and (rep.get("impl_violations") or rep.get("model_mismatches")) else 0
