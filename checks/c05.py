"""C05 — values cross the host boundary unchanged in both directions."""
import glob
import json
import os
import common

PROPS = "RotoV.Props.C05"
MODULES = ["RotoV.Model.BoundaryLayout", "RotoV.Model.Boundary", "RotoV.Model.BoundaryParams", "RotoV.Lemmas.BoundaryArith", "RotoV.Lemmas.BoundaryPlace", "RotoV.Lemmas.BoundaryPinned",
           "RotoV.Lemmas.BoundaryLayout", "RotoV.Lemmas.BoundaryAbi", "RotoV.Lemmas.BoundaryValues"]
# reads of host storage are copies: the store model of the LIR and its provenance check
PROPS_STORE = "RotoV.Props.C05Store"
MODULES_STORE = ["RotoV.Model.BoundaryStore", "RotoV.Lemmas.BoundaryStore"]
# every read sees an assigned value: definite assignment on the blocks of the LIR
PROPS_DEFUSE = "RotoV.Props.C05DefUse"
MODULES_DEFUSE = ["RotoV.Model.BoundaryDefUse", "RotoV.Lemmas.BoundaryDefUse"]
# only built-in and registered types cross: the generated name tests of check_roto_type
PROPS_GATE = "RotoV.Props.C05Gate"
MODULES_GATE = ["RotoV.Model.BoundaryGate", "RotoV.Lemmas.BoundaryGate"]


def search(ctx):
    """A theorem stopped checking against the regenerated tables, extraction
    failed, or model and implementation disagree: hunt for a concrete value /
    signature on which the property fails on the real code (all scenarios,
    more rounds, another seed)."""
    if ctx.impl_violations:
        return
    if ctx.build_harness("c05"):
        ctx.harness("c05", ["run", ctx.seed + 7919, "thorough"], timeout=3000, name="search:c05")


def run(ctx):
    # replay files of an earlier run must not survive into this one
    for f in glob.glob(os.path.join(common.VERIF, "evidence", "replays", "C05-*.json")):
        os.remove(f)
    ctx.extract(["boundary"])
    theorems, examples, axioms = [], 0, {}
    for props, mods in ((PROPS, MODULES), (PROPS_STORE, MODULES_STORE), (PROPS_DEFUSE, MODULES_DEFUSE),
                        (PROPS_GATE, MODULES_GATE)):
        ctx.prove(props, extra_modules=mods)
        theorems += ctx.coverage.get("theorems", [])
        examples += ctx.coverage.get("nonvacuity_examples", 0)
        axioms.update(ctx.coverage.get("axioms", {}))
    ctx.coverage["theorems"] = theorems
    ctx.coverage["nonvacuity_examples"] = examples
    ctx.coverage["axioms"] = axioms
    if ctx.build_harness("c05"):
        ctx.harness("c05", ["run", ctx.seed, ctx.tier], timeout=3000)
    ctx.trusted += [
        "rustc lays out #[repr(u8)] enums as the Rust reference says (union of repr(C) structs starting with the u8 tag) "
        "— modelled in closed form (reprU8) and compared with size_of/align_of/payload offsets of the real transformed "
        "types and of mirror enums on every run, not verified",
        "platform C ABI (x86-64 System V / AAPCS64): extern \"C\" passes bool/u8/i8, u16/i16, u32/i32/char/Asn, u64/i64/"
        "pointers in general registers by width, f32/f64 in vector registers, ignores zero-sized arguments and return "
        "values; Cranelift's default call convention places the same classes in the same registers / stack slots "
        "(register-vs-stack placement is only sampled by the positional scenarios)",
        "Layout::of::<T>() is the same on both sides for char, RotoString, IpAddr, Prefix, ErasedList (measured per run, "
        "arbitrary well-formed layouts in the theorems)",
        "the bodies of clone/drop of registered types and the list implementation are outside this property's model",
        "store model (Props/C05Store): Rust code called from a script (registered functions, clone/drop/eq functions, list and "
        "string operations) writes only through the pointers it is handed and returns no pointer into the host's cells "
        "(Oracle.WellBehaved); heap objects with shared ownership that a host value points to (a List is a reference) are "
        "not host cells in this model; the LIR the theorem is applied to is the hook's dump of the generated scripts, not of "
        "every script",
        "gate model (Props/C05Gate): name resolution puts the built-in generics and primitives in the global scope and "
        "whatever a script declares in a scope of its own, and never applies a primitive or registered type to type "
        "arguments (STy.WF; the type checker's scopes are C18's subject); the gate's arms are generated, the surrounding "
        "recursion of check_roto_type is transcribed (C04 translates the whole function)",
    ]
    return ctx.finish(
        level="proof",
        rule="a macro-generated family of 143 boundary types (17 built-in leaves, 14 registered types of size/align "
             "classes 0/1, 0/8, 1, 3, 2, 4, 8, 12/4, 24/8, 16/16, 32/32, 64/64, heap-owning; Option/List of every leaf; Result/Verdict "
             "pairs; depth 2-3 nestings) x scenarios {identity, registered function echo, registered constant, context "
             "field in 3 manual + 3 derived field orders, script-side construction/matching/?/accept/reject, registered "
             "methods (sized and zero-sized receiver, static), list get/for, every argument position of arities 2/4/7 in "
             "both directions directly and behind a script-to-script call, narrow-int arithmetic handed to Rust, library!-registered function/closure/method/constants, "
             "read sites (the same constant / context field / argument read at 13 control-flow positions x selector-chosen "
             "paths, every emitted and returned value compared), private copies (a local bound to a boundary read assigned "
             "to in 13 shapes + a record constant holding a registered constant; host struct and constant compared "
             "afterwards, also through a second package)} with class representatives (20 type families x every shape x "
             "every source, fixed seed) first x edge "
             "values then random values; plus the model facts (layout, payload offsets, discriminant bytes at predicted "
             "offsets of real values, Lowerer::location offsets, lowered and runtime-call signatures) on the family, on "
             "300/3000 random deeper types and 400/6000 random multi-parameter signatures against the Lean driver; the real LIR "
             "(hook mem_ops) of the 632 generated read-site / private-copy programs against Func.check (provenance) and "
             "Cfg.check (definite assignment) in the driver; a class "
             "is distinct by (scenario, position, size/align class signature of the type) with every round agreeing; "
             "script-declared types in exported signatures (class representatives, first): enums the script declares under "
             "the names Option / Result / Verdict / List and under fresh names x variant order {swapped, as in Rust, a third "
             "variant first / last} x payloads {u32, u8, u64, bool, f64, IpAddr, String, registered copy / clone type; pairs of "
             "different size classes} x functions {construct each variant, match, payload-or-default, identity, the declared "
             "type nested in built-in Option / List} asked for as the Rust type that spells the same names, one-field records "
             "asked for as the field's type, payload-free enums as u8: either get_function refuses (nothing crosses) or every "
             "value must arrive as the variant and payload that was sent",
        search=search,
    )


def replay(ctx, data):
    if data.get("kind") != "failing-input":
        print(json.dumps(data, indent=1))
        return 1
    if not ctx.build_harness("c05"):
        return 1
    inp = dict(data.get("input") or {})
    inp.setdefault("seed", ctx.seed)
    rep = ctx.harness("c05", ["replay", json.dumps(inp)])
    if rep is None:
        return 1
    for v in rep.get("impl_violations", []):
        print("REPLAY-VIOLATION", v.get("key"), "-", v.get("what"))
    return 1 if rep.get("impl_violations") else 0
