"""C19 — the test runner and CLI report outcomes truthfully."""
import json
import os
import common

PROPS = "RotoV.Props.C19"
EXTRA = ["RotoV.Lemmas.TestRunner", "RotoV.Model.TestRunner", "RotoV.Generated.TestRunner"]


def build_roto_bin(ctx):
    """The real `roto` binary, built from the repository under test (feature
    `cli`, its own [[bin]]), into <verif>/target/roto-cli."""
    tdir = os.path.join(common.TARGET, "roto-cli")
    e = common.env()
    e["CARGO_TARGET_DIR"] = tdir
    import subprocess
    with common.Lock("cargo-roto-cli"):
        try:
            p = subprocess.run(
                ["cargo", "build", "--offline", "--quiet", "--features", "cli", "--bin", "roto"],
                cwd=ctx.repo, env=e, timeout=3000, stdout=subprocess.PIPE, stderr=subprocess.STDOUT,
                text=True, errors="replace")
            rc, out = p.returncode, p.stdout
        except subprocess.TimeoutExpired:
            rc, out = 124, "[timeout]"
    exe = os.path.join(tdir, "debug", "roto")
    if rc != 0 or not os.path.exists(exe):
        ctx.obligation("build:roto-bin", False, out[-2000:])
        return None
    return exe


def model_available(ctx):
    """The Lean driver speaks for the tree only if it was rebuilt from this run's
    regenerated definitions.  After a failed extraction / Lean build the binary
    on disk is stale or missing: the harness then compares the implementation
    with the property's oracle alone (C19_MODEL=off) instead of dying or
    quoting an outdated model."""
    ok, _out = ctx.lake_build(["rotov-driver"])
    return ok


def correspondence(ctx, seed, tier, name=None):
    exe = build_roto_bin(ctx)
    if exe:
        os.environ["ROTO_BIN"] = exe
    else:
        os.environ.pop("ROTO_BIN", None)
    os.environ["C19_MODEL"] = "on" if model_available(ctx) else "off"
    if ctx.build_harness("c19"):
        ctx.harness("c19", ["run", seed, tier], timeout=6000, name=name)


def search(ctx):
    # a broken theorem / extraction / correspondence: hunt for a concrete script
    # or invocation on which the real runner / CLI violates the property.  The
    # boundary tables (test blocks at every module depth; 0, 1, 2, 255, 256, 257,
    # 512 and 65536 rejecting blocks through the real `roto` binary) run first.
    if ctx.impl_violations:
        ctx.log("the correspondence run already holds a concrete failing input; no further search")
        return
    correspondence(ctx, ctx.seed + 7919, "search", name="search:c19")


def run(ctx):
    ctx.extract(["testrunner"])
    ctx.prove(PROPS, extra_modules=EXTRA)
    correspondence(ctx, ctx.seed, ctx.tier)
    ctx.trusted += [
        "hand model (Model/TestRunner.lean): meanings of rsplit_once/map_or/starts_with/replace/strip_prefix/sort and of the iterator "
        "adapters; inside the (generated) Module::get_function the meaning of check_args / check_roto_type_reflect as equality of parameter lists / return types; declaration name spaces; pipeline stages as World operations "
        "— tied by the correspondence run only",
        "unicode-ident: '#' and '.' are not XID_Continue, XID_Start is a subset of XID_Continue (hypothesis XIDFacts of discovery_exact / no_shadow_*)",
        "counters of run_tests are i32 (Rust integer fallback; an explicitly typed counter is refused by the translator): aggregate_* assume fewer than 2^31 tests",
        "std::process::ExitCode is modelled as the status number the parent observes (SUCCESS = 0, FAILURE = 1, from(u8)); `failed` = status ≠ 0",
        "the JIT-compiled body of a test returns the verdict its source says (C01); modelled as FnInfo.verdict",
        "compiler-generated entries of the function table (eq/clone/drop glue) have no `#` in their keys (hypothesis of discovery_*; checked on every real table of the run)",
    ]
    return ctx.finish(
        level="proof",
        rule="API part: one class per distinct (module count, multiset of test keys with outcomes) that compiled and ran, plus one per "
             "rejected-script reason and per fn/test name collision (name, depth); CLI part: one class per (sub-command, situation, "
             "expected reason, single file | directory)",
        search=search,
    )


def replay(ctx, data):
    if data.get("kind") != "failing-input":
        print(json.dumps(data, indent=1))
        return 1
    # the driver must speak for the tree being replayed on
    ctx.extract(["testrunner"])
    os.environ["C19_MODEL"] = "on" if model_available(ctx) else "off"
    exe = build_roto_bin(ctx)
    if exe:
        os.environ["ROTO_BIN"] = exe
    if not ctx.build_harness("c19"):
        return 1
    inp = data["input"]
    case = inp.get("case", inp)
    while isinstance(case, dict) and "seed" not in case and "case" in case:
        case = case["case"]
    rep = ctx.harness("c19", ["replay", json.dumps({k: case.get(k) for k in ("part", "seed", "index")})])
    return 1 if rep and rep.get("impl_violations") else 0
