"""C09 — source text means what the documented grammar says."""
import json
import common

PROPS = "RotoV.Props.C09"


def search(ctx):
    # a bigger run with another seed; the boundary tables of the bracketed
    # constructs (every leaf kind x every position, every position x every
    # position), the exhaustive operator-sequence part and the fixed witnesses
    # come first inside the harness and do not depend on the seed
    if ctx.build_harness("c09"):
        ctx.harness("c09", ["run", ctx.seed + 7919, "thorough" if ctx.tier == "thorough" else "quick"],
                    timeout=3000, name="search:c09")


def run(ctx):
    ctx.extract(["precedence", "lookahead", "fstrtext", "identscan"])
    ctx.prove(PROPS, extra_modules=["RotoV.Model.Pratt", "RotoV.Model.Literal", "RotoV.Model.FString",
                                    "RotoV.Model.LookAheadBase", "RotoV.Model.LookAhead", "RotoV.Model.IdentScan", "RotoV.Lemmas.IdentScan",
                                    "RotoV.Lemmas.Pratt", "RotoV.Lemmas.Literal", "RotoV.Lemmas.LookAhead"])
    if ctx.build_harness("c09"):
        ctx.harness("c09", ["run", ctx.seed, ctx.tier], timeout=3000)
    ctx.trusted += [
        "rustc-literal-escaper (escape decoding) is modelled by Model/Literal.unescape and tied by the correspondence run only",
        "unicode-ident's XID_Start / XID_Continue predicates are parameters of the lexer model (the harness takes them from the crate)",
        "Rust std: str::parse for i64/u32/f64, Ipv4Addr/Ipv6Addr::from_str, Display of addresses; inetnum Prefix::new_relaxed",
        "the atoms of the Pratt model stand for whatever Parser::atom parses as one atom (the postfix loop of Parser::access is modelled; "
        "an argument list is one token, its arguments are expressions of their own); the look-ahead model "
        "(Model/LookAhead) covers atom/access/block/record/separated/f_string on token classes and is tied by the "
        "correspondence run (real parse tree vs model vs printed tree) and the generated look-ahead facts",
    ]
    return ctx.finish(
        level="proof",
        rule="operator sequences: a class is (level pattern of the operators, prefix operators present, accepted/rejected); "
             "literals: (kind, type, spelling features); identifiers: (origin, ascii/unicode, valid/invalid); "
             "comments: (shebang kind, number of comments); bracketed constructs: (path of positions outermost first, "
             "leaf kind, parsed/rejected) and the same for the JIT evaluation; literal positions: (literal class, position); "
             "f-string text parts: (documented / the reason the text is outside the documented grammar / evaluated, set of "
             "features: which character follows a backslash, what follows an escaped backslash, doubled brace after an escape "
             "or not, single brace, u/x before a brace, multi-byte)",
        search=search,
    )


def replay(ctx, data):
    if data.get("kind") != "failing-input":
        print(json.dumps(data, indent=1))
        return 1
    if not ctx.build_harness("c09"):
        return 1
    inp = data["input"]
    rep = ctx.harness("c09", ["replay", json.dumps(inp)])
    return 1 if rep and rep.get("impl_violations") else 0
