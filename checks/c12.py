"""C12 — compiled functions are safe and deterministic under concurrent use."""
import json
import os
import re
import common

PROPS = "RotoV.Props.C12"
GEN = os.path.join(common.LEAN, "RotoV", "Generated", "C12Bounds.lean")
BOUND_WORDS = {"send", "sync", "static", "clone", "partialEq", "other"}


def fn_bounds():
    """The closure bound lists of the regenerated facts, as words, for the
    driver's `c12 admits` (impl bounds ++ supertraits, as in `Bounds.reachable`)."""
    try:
        text = open(GEN).read()
    except OSError:
        return None
    m_super = re.search(r"registerableFnSuper := \[([^\]]*)\]", text)
    m_impls = re.search(r"registerableFnImpls := \[(.*?)\]\]", text, re.S)
    if not m_super or not m_impls:
        return None

    def words(s):
        ws = [w.strip().lstrip(".") for w in s.replace("[", " ").replace("]", " ").split(",")]
        return [w for w in ws if w in BOUND_WORDS]

    sup = words(m_super.group(1))
    lists = [words(l) + sup for l in m_impls.group(1).split("],")]
    return ";".join(" ".join(l) for l in lists if l)


def harness_args(ctx, seed, tier):
    args = ["run", seed, tier, "--repo", ctx.repo]
    b = fn_bounds()
    if b:
        args += ["--fn-bounds", b]
    return args


def search(ctx):
    if ctx.build_harness("c12"):
        ctx.harness("c12", harness_args(ctx, ctx.seed + 7919, "thorough"), timeout=3000, name="search:c12")


TSAN_TARGET = os.path.join(common.TARGET, "tsan")
TSAN_REL = os.path.join("..", "tsan", "x86_64-unknown-linux-gnu", "debug", "c12")


def tsan(ctx):
    """Thorough tier: the same stress cases in a ThreadSanitizer build
    (`cargo +nightly -Zbuild-std`, offline). JIT-generated code is not
    instrumented; the Rust side (runtime functions, Arc counts, registry
    mutex, interner, trampolines) is. If the toolchain cannot build it, that
    is recorded and the plain stress run stands alone."""
    import subprocess
    e = common.env()
    e["RUSTFLAGS"] = "-Zsanitizer=thread"
    e["CARGO_TARGET_DIR"] = TSAN_TARGET
    with common.Lock("cargo-tsan"):
        try:
            p = subprocess.run(
                ["cargo", "+nightly", "build", "--offline", "--quiet", "-Zbuild-std",
                 "--target", "x86_64-unknown-linux-gnu", "--bin", "c12"],
                cwd=os.path.join(common.VERIF, "harness"), env=e, timeout=2400,
                stdout=subprocess.PIPE, stderr=subprocess.STDOUT, text=True, errors="replace")
            ok, out = p.returncode == 0, p.stdout
        except (subprocess.TimeoutExpired, OSError) as ex:
            ok, out = False, repr(ex)
    if not ok:
        ctx.notes.append("thread-sanitizer build not available here (plain stress only): " + out[-300:].replace("\n", " "))
        return
    os.makedirs(os.path.join(TSAN_TARGET, "reports"), exist_ok=True)
    os.environ["TSAN_OPTIONS"] = "halt_on_error=1 exitcode=66 log_path=" + os.path.join(TSAN_TARGET, "reports", "tsan")
    try:
        ctx.harness(TSAN_REL, ["stress", ctx.seed + 1, "quick", 120], timeout=2400, name="correspondence:c12-tsan")
    finally:
        del os.environ["TSAN_OPTIONS"]


def run(ctx):
    ctx.extract(["c12bounds"])
    ctx.prove(PROPS, extra_modules=["RotoV.Lemmas.Conc", "RotoV.Model.Conc"])
    if ctx.build_harness("c12"):
        ctx.harness("c12", harness_args(ctx, ctx.seed, ctx.tier), timeout=3000)
        if ctx.tier == "thorough":
            tsan(ctx)
    ctx.trusted += [
        "LIR dump hook roto::verif_hooks::c12 (structured dump of the real lowered program) and the driver's parser of it",
        "a callee (Roto or runtime function) writes at most through the pointers it is handed; the context is handed on read-only "
        "(for Roto callees this is frame_local_writes applied to the callee; for Rust runtime functions it is their signature: out-pointer first, by-value arguments in slots)",
        "Cranelift maps LIR stack slots to the frame of the running thread; the host passes by-reference arguments from its own frame (codegen/mod.rs, value/mod.rs) — modelled, not verified",
        "rustc's auto-trait rules: a type passes a bound list iff it has the listed auto traits (Bounds.admits); checked against rustc on three probe programs per run",
        "modelled, not verified: data races inside machine code, the global TypeRegistry mutex and the symbol_table interner are exercised by the stress run only "
        "(thorough tier repeats the stress cases in a ThreadSanitizer build, which instruments the Rust side but not the JIT-generated code)",
    ]
    return ctx.finish(
        level="proof",
        rule="stress cases: a class is (script family, feature flags, number of calling threads) with every concurrent result compared to the "
             "single-threaded result of the same call; evaluations = compared concurrent calls + rustc probe programs; "
             "every script's real LIR goes through the verified checker (histogram lir-checked: items / instructions / write sites)",
        search=search,
    )


def replay(ctx, data):
    if data.get("kind") != "failing-input":
        print(json.dumps(data, indent=1))
        return 1
    if not ctx.build_harness("c12"):
        return 1
    inp = data["input"]
    case = inp.get("case", inp)
    rep = ctx.harness("c12", ["replay", json.dumps(case)])
    return 1 if rep and rep.get("impl_violations") else 0
