"""C12 — compiled functions are safe and deterministic under concurrent use."""
import json
import os
import re
import common

PROPS = "RotoV.Props.C12"
GEN = os.path.join(common.LEAN, "RotoV", "Generated", "C12Bounds.lean")
BOUND_WORDS = {"send", "sync", "static", "clone", "partialEq", "other"}


def fn_bounds():
    """The closure bound lists of the regenerated facts, as words, for the
    driver's `c12 admits` (impl bounds ++ supertraits, as in `Bounds.reachable`)."""
    try:
        text = open(GEN).read()
    except OSError:
        return None
    m_super = re.search(r"registerableFnSuper := \[([^\]]*)\]", text)
    m_impls = re.search(r"registerableFnImpls := \[(.*?)\]\]", text, re.S)
    if not m_super or not m_impls:
        return None

    def words(s):
        ws = [w.strip().lstrip(".") for w in s.replace("[", " ").replace("]", " ").split(",")]
        return [w for w in ws if w in BOUND_WORDS]

    sup = words(m_super.group(1))
    lists = [words(l) + sup for l in m_impls.group(1).split("],")]
    return ";".join(" ".join(l) for l in lists if l)


def val_bounds():
    """The bound lists a host value `Val<T>` has to pass (`impl … Value for Val<T>`
    and `Value::Transformed`), as words, for the driver's `c12 admits`."""
    try:
        text = open(GEN).read()
    except OSError:
        return None
    out = []
    for field in ("valImpl", "valueTransformed"):
        m = re.search(field + r" := \[([^\]]*)\]", text)
        if not m:
            return None
        ws = [w.strip().lstrip(".") for w in m.group(1).split(",")]
        out.append(" ".join(w for w in ws if w in BOUND_WORDS))
    return ";".join(out)


def harness_args(ctx, seed, tier):
    args = ["run", seed, tier, "--repo", ctx.repo]
    b = fn_bounds()
    if b:
        args += ["--fn-bounds", b]
    v = val_bounds()
    if v:
        args += ["--val-bounds", v]
    return args


# which share classes of the harness make a broken T4 obligation observable on the real code
FOCUS = {
    "lock_discipline_on_tree": ["swap-rust", "swap-script"],
    "counts_atomic_on_tree": ["refcount-storm"],
    "closures_own_on_tree": ["into-func"],
    "slots_in_frame_on_tree": ["frame-slots"],
    "globals_upgrades_rechecked_on_tree": ["compile-race"],
    "globals_inserts_exclusive_on_tree": ["compile-race"],
    "globals_entries_frozen_on_tree": ["multi-runtime"],
    "names_resolved_per_runtime_on_tree": ["multi-runtime"],
    "thread_locals_pure_caches_on_tree": ["cross-thread-build"],
}


def share_focus(ctx):
    """The share classes to hunt in, from the obligations that actually fail to
    check (not those merely unchecked because the module did not build);
    None = nothing about sharing is broken."""
    focus = []
    for (name, ok, detail) in ctx.obligations:
        if ok or not detail.startswith("fails to check"):
            continue
        for thm, classes in FOCUS.items():
            if name.endswith("." + thm):
                focus += [c for c in classes if c not in focus]
    if "extract:c12sharing" in ctx.broken and not focus:
        focus = [c for t, cs in FOCUS.items() for c in cs if t in ("lock_discipline_on_tree", "counts_atomic_on_tree", "closures_own_on_tree")]
    if "extract:c12frame" in ctx.broken:
        focus = (focus or []) + ["frame-slots"]
    if "extract:c12globals" in ctx.broken:
        focus = (focus or []) + ["compile-race", "multi-runtime", "cross-thread-build"]
    return focus or None


# violation keys of the rustc probes that make a broken T3 obligation concrete
SYNC_KEYS = ("registerable-fn-not-sync", "host-value-not-sync", "constant-not-send-sync")


def explained(ctx):
    """True when every theorem that fails to check already has a concrete failing
    input of its class among the violations of the correspondence run (and nothing
    else — an extraction, a build, a model mismatch — is broken)."""
    failing = set()
    for (name, ok, detail) in ctx.obligations:
        if ok:
            continue
        if name.startswith("theorem:") and detail.startswith("fails to check"):
            failing.add(name.rsplit(".", 1)[-1])
        elif name.startswith("theorem:") or name.startswith("lake:"):
            continue  # not checked because the module did not build
        else:
            return False
    keys = [v.get("key", "") for v in ctx.impl_violations]
    for thm in failing:
        if thm == "sync_holds_on_tree":
            ok = any(k in SYNC_KEYS for k in keys)
        elif thm in FOCUS:
            ok = any(c in k for k in keys for c in FOCUS[thm])
        else:
            ok = False
        if not ok:
            return False
    return bool(failing)


def search(ctx):
    if explained(ctx):
        return
    if not ctx.build_harness("c12"):
        return
    focus = share_focus(ctx)
    if focus and any(v.get("key", "").endswith(":" + c) or c in v.get("key", "") for v in ctx.impl_violations for c in focus):
        # the correspondence run already produced a concrete history in the class the
        # broken obligation points at
        return
    if focus:
        # a lock / count / capture obligation is broken: hunt for a concrete history in
        # exactly those stress classes, escalating rounds, until found or the budget is used
        before = len(ctx.impl_violations)
        ctx.harness("c12", ["share", ctx.seed + 7919, ctx.tier, "--focus", ",".join(focus), "--budget-s", 150],
                    timeout=600, name="search:c12-share")
        if len(ctx.impl_violations) > before:
            return
    ctx.harness("c12", harness_args(ctx, ctx.seed + 7919, "thorough"), timeout=3000, name="search:c12")


TSAN_TARGET = os.path.join(common.TARGET, "tsan")
TSAN_REL = os.path.join("..", "tsan", "x86_64-unknown-linux-gnu", "debug", "c12")


def tsan(ctx):
    """Thorough tier: the same stress cases in a ThreadSanitizer build
    (`cargo +nightly -Zbuild-std`, offline). JIT-generated code is not
    instrumented; the Rust side (runtime functions, Arc counts, registry
    mutex, interner, trampolines) is. If the toolchain cannot build it, that
    is recorded and the plain stress run stands alone."""
    import subprocess
    e = common.env()
    e["RUSTFLAGS"] = "-Zsanitizer=thread"
    e["CARGO_TARGET_DIR"] = TSAN_TARGET
    with common.Lock("cargo-tsan"):
        try:
            p = subprocess.run(
                ["cargo", "+nightly", "build", "--offline", "--quiet", "-Zbuild-std",
                 "--target", "x86_64-unknown-linux-gnu", "--bin", "c12"],
                cwd=os.path.join(common.VERIF, "harness"), env=e, timeout=2400,
                stdout=subprocess.PIPE, stderr=subprocess.STDOUT, text=True, errors="replace")
            ok, out = p.returncode == 0, p.stdout
        except (subprocess.TimeoutExpired, OSError) as ex:
            ok, out = False, repr(ex)
    if not ok:
        ctx.notes.append("thread-sanitizer build not available here (plain stress only): " + out[-300:].replace("\n", " "))
        return
    os.makedirs(os.path.join(TSAN_TARGET, "reports"), exist_ok=True)
    os.environ["TSAN_OPTIONS"] = "halt_on_error=1 exitcode=66 log_path=" + os.path.join(TSAN_TARGET, "reports", "tsan")
    try:
        ctx.harness(TSAN_REL, ["stress", ctx.seed + 1, "quick", 120], timeout=2400, name="correspondence:c12-tsan")
    finally:
        del os.environ["TSAN_OPTIONS"]


def run(ctx):
    ctx.extract(["c12bounds", "c12sharing", "c12instr", "c12globals", "c12frame"])
    ctx.prove(PROPS, extra_modules=["RotoV.Lemmas.Conc", "RotoV.Model.Conc", "RotoV.Lemmas.ConcShare", "RotoV.Model.ConcShare",
                                     "RotoV.Lemmas.ConcExec", "RotoV.Model.ConcExec", "RotoV.Model.ConcInstr", "RotoV.Model.ConcFrame", "RotoV.Lemmas.ConcFrame",
                                     "RotoV.Model.ConcIntern", "RotoV.Lemmas.ConcIntern"])
    if ctx.build_harness("c12"):
        ctx.harness("c12", harness_args(ctx, ctx.seed, ctx.tier), timeout=3000)
        if ctx.tier == "thorough":
            tsan(ctx)
    ctx.trusted += [
        "LIR dump hook roto::verif_hooks::c12 (structured dump of the real lowered program) and the driver's parser of it",
        "Rust code called from generated code (runtime functions, clone_fn, drop glue, eq_fn, string / literal initialisers) writes at most through the pointers it is handed for writing "
        "and reads only its operands and memory the call can address (Exec.RtConfined); derived in rtConfined_of_sync from T3 plus the trusted SitesAdmitted (every such Rust object was admitted through a generated bound list) "
        "and SyncConfines (the meaning of Send + Sync). Roto callees are NOT assumed: T5 runs them as frames of the same machine",
        "Exec.resolve: a stack slot / return buffer / by-reference argument named by call i is memory of call i. For stack slots this is T7: the generated facts of target c12frame say that every "
        "arm of the code generator's match over lir::ValueOrSlot backs a slot variable with a Cranelift explicit stack slot addressed by stack_addr and that the JIT module has no writable / thread-local "
        "data object (slots_in_frame_on_tree, frame_sound); TRUSTED: a Cranelift explicit stack slot is part of the frame that the prologue of every activation allocates on the stack of the running thread; "
        "the host passes the return buffer and by-reference arguments from its own frame (value/mod.rs; modelled, not verified). Exercised by share class frame-slots. Also tied by "
        "codegen_ops_match_model / eval_ops_match_model (which instruction kinds store, copy, load, call; frame push / pop and fresh slots in the reference interpreter)",
        "translator target c12frame: storage operations are recognised by METHOD NAME (create_sized_stack_slot + ExplicitSlot, stack_addr, declare_anonymous_data / declare_data with literal writable / tls "
        "arguments, global_value / symbol_value / tls_value) inside ModuleBuilder::define_function, FuncGen::entry_block, FuncGen::instruction and the methods they call on self; an unclassified method or "
        "function whose name contains store / load / mem / stack / data / global / alloc / leak / tls / ptr:: is an extraction failure; storage reached through a closure or a free function is outside the scan",
        "translator targets c12instr (enum Instruction; method-call names inside FuncGen::instruction and the FuncGen helpers it calls on self; operations on `mem` inside lir::eval::eval) and "
        "c12globals (every `static` item under src/ by the NAMES in its type: Mutex, RwLock, Atomic*, Cell, RefCell, UnsafeCell, Rc; uses of a lock-shaped static by token scan of the declaring file; a pub lock-shaped static is an extraction failure)",
        "rustc's auto-trait rules: a type passes a bound list iff it has the listed auto traits (Bounds.admits); checked against rustc on the probe programs of each run",
        "translator target c12sharing: shapes are decided by type NAME (Arc, Rc, Mutex, RwLock, Cell …; renames/aliases of these names are an extraction failure), structs of the crate are inlined, "
        "enums and foreign types are opaque (.ext); a RawList method 'writes' iff its body contains a write primitive, a call through drop_fn/clone_fn, a field assignment or a call of a writing method on self",
        "std's Mutex admits one holder, RwLock one writer or many readers, Arc counts are atomic read-modify-writes, Rc counts are plain loads and stores (the machines of Model/ConcShare) — modelled, not verified",
        "translator target c12globals (round 4): sections of a function = the code between two occurrences of a lock-shaped static's name; table operations by METHOD NAME (lookup: get / contains_key / entry / iter …; insert: insert / push / "
        "or_insert_with / extend / set …); entryCells by type NAME across src/ (crate structs / enums inlined by name); nameSources by the identifiers in each arm of the match over ty.description in rust_type_to_roto_type; "
        "a guard handed to a helper function is outside the scan. The external symbol_table interner is not modelled at source level: its contract (one identifier per text under concurrent interning) is decided by the verified "
        "checker Intern.consistent on the observations of hook verif_hooks::c12::intern; that a read-locked lookup section and an exclusive insert section are atomic steps is the lock machine (no_foreign_write_while_held, global_insert_section_alone)",
        "translator target c12globals (round 4, thread-local tables): every `static` inside a `thread_local!` under src/ (hooks / tests skipped) by NAME; per function that names it, operations by METHOD NAME inside "
        "`NAME.with*(…)` (lookup / insert lists as above; `.get()` / `.take()` / `.set()` / `.replace()` on the key itself), anything else is `.other` (fails the decision); sharedAfterLookup = an acquisition "
        "(`.lock()` / `.read()` / `.write()`) of a lock-shaped static of the crate occurs textually after the first lookup in the same function — a fall-through in a helper function is outside the scan and fails the decision; "
        "threadIdUses = syn paths ending in `thread::current` / `ThreadId` and `use` items naming them (a renamed import `use std::thread as t; t::current()` is outside the scan); "
        "CacheCoherent (a thread's table holds only copies of shared entries) is the hypothesis of pure_cache_thread_independent, not extracted",
        "modelled, not verified: data races inside machine code are exercised by the stress run only "
        "(thorough tier repeats the stress cases in a ThreadSanitizer build, which instruments the Rust side but not the JIT-generated code)",
    ]
    return ctx.finish(
        level="proof",
        rule="stress cases: a class is (script family, feature flags, number of calling threads) with every concurrent result compared to the "
             "single-threaded result of the same call; evaluations = compared concurrent calls + rustc probe programs; "
             "every script's real LIR goes through the verified checker as a whole program — Exec.acceptProg, the hypothesis of accepted_items_noninterfere "
             "(histogram lir-checked: items / instructions / write sites / calls between items; histogram lir-kinds: instructions per lir::Instruction kind; seven kind representatives run first and must reach all generated kinds); "
             "share classes (run first, each in its own worker): swap-rust / swap-script (N threads x swaps on overlapping indices of one shared list, concurrent snapshots: "
             "every snapshot and the final list must be a permutation of whole elements, element drop count balances), refcount-storm (clone/drop/compile storms on a registered closure "
             "and a registered constant holding a drop-counting token: no drop while an owner lives, exactly one at the end), into-func (closure of into_func called after every other "
             "owner was dropped on another thread, several arities, with and without context), frame-slots (run FIRST; one script per slot size 8 B … 256 KiB, sizes around the powers of two, "
             "the big value as local / temporary argument / return slot / local live across a recursive call; N threads rendezvous INSIDE the function through a registered function, so all activations are "
             "live at once in every round, then run free; every result must equal the closed form = the single-threaded result), "
             "multi-runtime (2-4 runtimes in one process register the same four Rust types under different Roto names — the name of a type in one runtime denotes its neighbour in the next — or under the "
             "same name in different module scopes, built one after the other or on threads of their own at the same moment; functions and a constant mention every type; under each runtime the well-typed "
             "scripts of THAT runtime must compile and return the closed form, handles must have the declared Rust signature, scripts returning one registered type as another must be rejected: each runtime "
             "behaves as alone in a fresh process), compile-race (3-8 barrier-synchronised threads parse + compile + call scripts whose 36-120 identifier texts are new to the process and shared between the "
             "threads — same script, overlapping name windows, or each thread first builds a runtime registering functions under the same fresh names; 40 rounds; every outcome must equal the same source "
             "compiled alone on one thread = the closed form), cross-thread-build (run FIRST; ten steps — build a Type, Functions over Val<T> / Option<Val<T>>, a Constant, a library! with a second host type; merge + Runtime::from_lib; "
             "with_context_type whose field is that second type; compile; get_function; call; drop — distributed over the fresh threads of a pool, steps 0-3 at the same moment: representatives worker-builds, parallel-parts, "
             "context-worker, relay, then PRNG-drawn step-to-thread assignments over 2-5 reused threads; the observations must equal those of the same ten steps on ONE fresh thread = the closed form; a panic of a step is caught "
             "on its thread and is an observation); rustc probes: a Send + !Sync closure, an Rc constant and a Send + !Sync "
             "host value Val<T> in a script-level constant must be rejected (if accepted they are run: 4 x 100000 calls, lost updates reported), their Sync controls must build and count exactly",
        search=search,
    )


def replay(ctx, data):
    if data.get("kind") != "failing-input":
        print(json.dumps(data, indent=1))
        return 1
    if not ctx.build_harness("c12"):
        return 1
    inp = data["input"]
    case = inp.get("case", inp)
    rep = ctx.harness("c12", ["replay", json.dumps(case)])
    return 1 if rep and rep.get("impl_violations") else 0
