"""C02 — aggregates are values, lists are shared, components are addressed exactly."""
import json
import os
import common

PROPS = "RotoV.Props.C02"
MODULES = ["RotoV.Lemmas.Layout", "RotoV.Lemmas.LayoutPath", "RotoV.Lemmas.LayoutClone", "RotoV.Lemmas.LayoutEq", "RotoV.Lemmas.LayoutTotal", "RotoV.Lemmas.LayoutDrop", "RotoV.Lemmas.LayoutRead", "RotoV.Lemmas.LayoutWrite", "RotoV.Lemmas.LayoutListEq", "RotoV.Model.LayoutListEq", "RotoV.Model.LayoutListStd", "RotoV.Model.LayoutMem", "RotoV.Model.Layout", "RotoV.Model.LayoutOps",
           "RotoV.Model.LayoutStd", "RotoV.Model.LayoutKind", "RotoV.Model.ValueSpec", "RotoV.Model.ValueCtor", "RotoV.Lemmas.ValueCtor", "RotoV.Model.ValueMatch", "RotoV.Lemmas.ValueMatch", "RotoV.Model.ValueMir", "RotoV.Lemmas.ValueMir"]


def search(ctx):
    """A bigger hunt on the real code: more type environments and more
    copy-then-mutate scripts, from another seed."""
    if ctx.build_harness("c02"):
        ctx.harness("c02", ["run", ctx.seed + 7919, "thorough" if ctx.tier == "thorough" else "search"],
                    timeout=3000, name="search:c02")


def run(ctx):
    ctx.extract(["layout", "layoutloops", "layoutdecide", "layoutlisteq", "matchexaminee"])
    ctx.prove(PROPS, extra_modules=MODULES)
    if ctx.build_harness("c02"):
        rep = ctx.harness("c02", ["run", ctx.seed, ctx.tier], timeout=3000)
        if rep is not None and not any((v.get("input") or {}).get("kind") == "beh" for v in rep.get("impl_violations", [])):
            # (when generated scripts already fail there is nothing to measure, and the violation stands)
            # the representation battery must REACH its class: among the pairs of equal
            # values compared as list elements whose bytes the host can see, some differ
            # in bytes outside the value (measured through the hook element_bytes)
            h = rep.get("histograms", {}).get("equal_values_compared_as_list_elements_bytes", {})
            ctx.obligation("reach:equal-values-with-other-bytes", h.get("differ", 0) >= 20,
                           f"measured pairs: {h} (the painted stack no longer reaches the bytes outside the values)")
        if rep is not None and not any((v.get("input") or {}).get("kind") == "ctor" for v in rep.get("impl_violations", []) + rep.get("model_mismatches", [])):
            # the constructor phase must have RUN: the real lowerer's MIR of the representatives and of the
            # generated programs of the source core was executed by the Lean MIR semantics against `eval`
            h = rep.get("histograms", {}).get("ctor_lowering_shape", {})
            n = sum(h.values())
            ctx.obligation("reach:constructor-mir-validated", n >= 500,
                           f"{n} constructor programs validated ({h}); the phase did not run or lost its cases")
        if rep is not None and not any((v.get("input") or {}).get("kind") == "beh" for v in rep.get("impl_violations", [])):
            # the MIR checker must have SEEN matches: binding extractions of the real lowerer's MIR that the
            # verified checker `matchIsOnCopy` (c02 mirmatch) accepted, item by item
            h = rep.get("histograms", {}).get("mir_match_checker", {})
            ctx.obligation("reach:match-bindings-verified-on-real-mir", h.get("binding-extractions-verified", 0) >= 3000 and h.get("no-dump", 0) == 0,
                           f"{h} (the hook dump of the scripts' MIR no longer reaches the checker)")
            # … and calls: aggregate / owned values handed to a call that the second verified checker
            # `argumentsAreConsumed` accepted (no read, drop, move or pass of the variable after the call)
            ctx.obligation("reach:call-arguments-verified-on-real-mir", h.get("call-arguments-verified", 0) >= 3000,
                           f"{h} (no record / enum / owned call argument of the scripts' MIR reached the checker)")
    ctx.trusted += [
        "usize is modelled as Nat: no wrap-around in layout arithmetic (sizes of real types are far below 2^64)",
        "leaf layouts (primitives, String, List, registered types) are whatever the runtime reports; theorems assume only that they pass Layout::new's asserts",
        "modelled, not verified: the memory operations themselves (Cranelift loads/stores/memcpy, the registered clone/drop/eq functions)",
        "match_bindings_read_the_switched_value_mir and call_arguments_are_consumed_mir are about `Model/ValueMir.flatten` of the dumped item: that reading of the MIR's control flow and of what an instruction does to a variable (assign / set discriminant / drop / move / call argument = affects; discriminant(v); clone(v.<variant field>); uses = any read, drop, move, pass, switch or return of v or a part; defs = `v = …` as a whole; hands = call argument whose parameter type is a record / enum / needs a drop, read off the item's own type table) is definitional, and the dump itself (verif_hooks::c03, numeric) is trusted to render the MIR the compiler goes on to lower",
        "T8 (constructors hold their values) is about the hand transliteration `Model/ValueCtor.lower` of Lowerer::record/binop/assign/block and the executed meaning of MIR assignments given there; the real lowerer's MIR is run against the spec per generated program (and compared instruction for instruction, measured), not proved equal for all programs",
    ]
    return ctx.finish(
        level="proof",
        rule="layout phase: a class is a distinct aggregate type tree (canonical structural name) on which the real lowerer's "
             "answers (layout_of, is_reference_type, needs_clone/drop, lower_type, location offsets of all paths up to depth 3, "
             "generated clone/drop/eq memory operations) equal the Lean model's and satisfy the property-level oracle; "
             "behavioural phase: a class is a distinct (statement-kind multiset, type-shape) signature of a generated "
             "copy-then-mutate script whose emissions equal the Lean value-semantics spec's",
        search=search,
    )


def replay(ctx, data):
    if data.get("kind") != "failing-input":
        print(json.dumps(data, indent=1))
        return 1
    if not ctx.build_harness("c02"):
        return 1
    # handed over in a file (a script can exceed the argv limit); not under /tmp
    path = os.path.join(common.VERIF, "evidence", "replays", ".C02-replay-input.json")
    json.dump(data["input"], open(path, "w"))
    try:
        rep = ctx.harness("c02", ["replay", "@" + path])
    finally:
        os.remove(path)
    if rep is None:
        return 1
    bad = rep.get("impl_violations") or rep.get("model_mismatches")
    for v in (rep.get("impl_violations") or [])[:3]:
        print("REPLAY-VIOLATION", json.dumps(v)[:600])
    return 1 if bad else 0
