#!/usr/bin/env python3
"""Refresh the pinned skeleton lean/RotoV/Model/TcValueCyclePinned.lean of
src/typechecker/value_cycle.rs (find_compilation_order, tarjan, strongly_connect,
State::update_lowlink, the fields of VertexState / State) from the freshly generated
lean/RotoV/Generated/C07Cycle.lean (translator target `c07cycle`).

Props/C07.lean proves Generated/C07Cycle = Model/TcValueCyclePinned by rfl, so a change of
the algorithm breaks an obligation. Run this script only deliberately: after the change has
been carried over to the model Model/Tarjan.lean (and its proofs re-checked).

usage: tools/c07_pin_cycle.py [--check]
  (first regenerate:  target/debug/rotov-extract <repo> lean/RotoV/Generated c07cycle)
"""
import os
import re
import sys

VERIF = os.path.dirname(os.path.dirname(os.path.abspath(__file__)))
GEN = os.path.join(VERIF, "lean", "RotoV", "Generated", "C07Cycle.lean")
PIN = os.path.join(VERIF, "lean", "RotoV", "Model", "TcValueCyclePinned.lean")
GEN_NS = "RotoV.Gen.C07Cycle"
PIN_NS = "RotoV.TcValueCyclePinned"
DEFS = ["cycleSkeletons"]

HEADER = """/- Pinned skeleton of src/typechecker/value_cycle.rs (find_compilation_order, tarjan, strongly_connect,
   State::update_lowlink, fields of VertexState / State) the model Model/Tarjan.lean was written from;
   Props/C07.lean proves Generated/C07Cycle = this by rfl, so a changed statement breaks an obligation.
   Regenerate with (in the verification directory):
     ./target/debug/rotov-extract <repo> lean/RotoV/Generated c07cycle && python3 tools/c07_pin_cycle.py
   Do not edit by hand. -/
"""


def pinned_text():
    src = open(GEN, encoding="utf-8").read()
    if "GENERATED stub" in src:
        sys.exit(f"{GEN} is a failure stub: extraction of target c07cycle failed")
    start = src.find(f"namespace {GEN_NS}\n")
    stop = src.find(f"end {GEN_NS}\n")
    if start < 0 or stop < 0:
        sys.exit(f"{GEN}: namespace {GEN_NS} not found")
    body = src[start + len(f"namespace {GEN_NS}\n"):stop]
    for d in DEFS:
        if not re.search(rf"^def {d} : List \(String × List String\) := \[$", body, re.M):
            sys.exit(f"{GEN}: def {d} not found")
    return f"{HEADER}namespace {PIN_NS}\n{body}end {PIN_NS}\n"


def main():
    new = pinned_text()
    old = open(PIN, encoding="utf-8").read() if os.path.exists(PIN) else None
    if "--check" in sys.argv[1:]:
        if old != new:
            print(f"{PIN} differs from the generated skeleton")
            sys.exit(1)
        print("pinned skeleton is up to date")
        return
    if old == new:
        print(f"{PIN} unchanged")
        return
    with open(PIN, "w", encoding="utf-8") as f:
        f.write(new)
    print(f"wrote {PIN}")


if __name__ == "__main__":
    main()
