#!/bin/sh
# tools/run_harmless.sh <verif-dir> <repo-dir> [Hk...]: apply each behaviour-preserving
# refactoring of seeded/harmless/ to <repo-dir>, run the quick checks of the properties
# whose anchored code it touches from <verif-dir>, undo it; verdicts go to
# /verif/seeded/harmless/<Hk>/verdict.log.  A VIOLATION here is a false alarm of the tie
# (expected form: `no-failing-input-found`); a failing input would be a bug of the check.
V=$1; R=$2; shift 2
ids="$@"; [ -n "$ids" ] || ids=$(ls /verif/seeded/harmless | sort -V)
export ROTO_REPO=$R
for h in $ids; do
  S=/verif/seeded/harmless/$h
  git -C $R diff --quiet || { echo "$R is dirty"; exit 2; }
  git -C $R apply $S/patch.diff || { echo "$h: patch does not apply"; continue; }
  : > $S/verdict.log
  for c in $(python3 -c "import json; print(' '.join(json.load(open('$S/meta.json'))['properties']))"); do
    (cd $V && ./check $c --tier quick > /tmp/run_harmless.$$ 2>&1); rc=$?
    first=$(grep -E "^VIOLATION" /tmp/run_harmless.$$ | head -1)
    nb=$(grep -c "OBLIGATION BROKEN" /tmp/run_harmless.$$)
    brk=$(grep "OBLIGATION BROKEN" /tmp/run_harmless.$$ | head -3 | cut -c1-200 | tr '\n' '|')
    echo "$h $c rc=$rc broken=$nb :: $first :: $brk" | tee -a $S/verdict.log
  done
  rm -f /tmp/run_harmless.$$
  git -C $R checkout -- .
done
