#!/bin/sh
# tools/run_seed.sh <SEED-ID> <Cxx>...: apply a kept seeded change to /repo, run
# the given checks (quick tier), undo it straight afterwards. Prints each check's
# verdict and records it in seeded/<SEED-ID>/detection.log.
S=/verif/seeded/$1; ID=$1; shift
git -C /repo diff --quiet || { echo "/repo is dirty"; exit 2; }
git -C /repo apply "$S/patch.diff" || exit 2
for c in "$@"; do
  (cd /verif && ./check "$c" --tier quick > /tmp/run_seed.$$ 2>&1); rc=$?
  first=$(grep -E "^VIOLATION" /tmp/run_seed.$$ | head -1)
  nv=$(grep -c "^VIOLATION" /tmp/run_seed.$$)
  nb=$(grep -c "OBLIGATION BROKEN" /tmp/run_seed.$$)
  key=""
  r=$(echo "$first" | sed -n 's/.*replay=\([^ ]*\).*/\1/p')
  [ -n "$r" ] && [ -f "$r" ] && key=$(python3 -c "import json,sys; d=json.load(open('$r')); print((d.get('kind','')+' | '+str(d.get('key',''))+' | '+str(d.get('what',''))+' | '+str(d.get('broken_obligations',''))[:160])[:400])")
  line="$ID $c rc=$rc violations=$nv broken_obligations=$nb :: $first :: $key"
  echo "$line"
  grep -v "^$ID $c " "$S/detection.log" 2>/dev/null > /tmp/run_seed.d.$$; mv /tmp/run_seed.d.$$ "$S/detection.log"; echo "$line" >> "$S/detection.log"
  rm -f /tmp/run_seed.$$
done
git -C /repo checkout -- .
git -C /repo status --short | head -3
