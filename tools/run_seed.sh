#!/bin/sh
# tools/run_seed.sh <SEED-ID> <Cxx>...: apply a kept seeded change to /repo, run
# the given checks, undo it straight afterwards. Prints each check's verdict.
S=/verif/seeded/$1; shift
git -C /repo diff --quiet || { echo "/repo is dirty"; exit 2; }
git -C /repo apply "$S/patch.diff" || exit 2
for c in "$@"; do
  out=$(cd /verif && ./check "$c" --tier quick 2>&1); rc=$?
  echo "== $c rc=$rc"; echo "$out" | grep -E "^VIOLATION|^KNOWN-FINDING|OBLIGATION BROKEN" | cut -c1-220 | head -8
done
git -C /repo checkout -- .
git -C /repo status --short | head -3
