#!/usr/bin/env python3
"""Regenerate /verif/MANIFEST.json from checks/*.json fragments.
A property without a fragment is listed under not_applicable with the reason
given in tools/unclaimed.json (or a default)."""
import glob
import json
import os
import subprocess

V = os.path.dirname(os.path.dirname(os.path.abspath(__file__)))
props = [json.loads(l) for l in open(os.path.join(V, "properties.jsonl"))]
frags = {}
for f in sorted(glob.glob(os.path.join(V, "checks", "c*.json"))):
    d = json.load(open(f))
    frags[d["property_id"]] = d
try:
    unclaimed = json.load(open(os.path.join(V, "tools", "unclaimed.json")))
except OSError:
    unclaimed = {}
try:
    hooks = subprocess.run(
        ["git", "-C", "/repo", "log", "--format=%H %s", "--grep=^verif-hooks"],
        capture_output=True, text=True).stdout.strip().splitlines()
except OSError:
    hooks = []
checks, na = [], []
for p in props:
    pid = p["id"]
    if pid in frags and pid not in unclaimed:
        d = frags[pid]
        checks.append({
            "property_id": pid,
            "quick_cmd": f"./check {pid} --tier quick",
            "thorough_cmd": f"./check {pid} --tier thorough",
            "evidence_file": f"/verif/evidence/{pid}.json",
            "replay_cmd_template": f"./check {pid} --replay {{path}}",
            "engine": "rotov",
            "level_claimed": d["level_claimed"],
            "level_note": d["level_note"],
            "technique": d["technique"],
        })
    else:
        na.append({"property_id": pid, "reason": unclaimed.get(
            pid, "not yet claimed: its Lean model, theorems and tie are still under construction (DESIGN.md §4, §8)")})
m = {
    "version": 1,
    "setup_cmd": "./setup.sh",
    "hooks": {
        "guard": "cargo feature verif-hooks (roto/Cargo.toml [features] verif-hooks = [])",
        "enable": "harness depends on roto with features = [\"verif-hooks\"]; cargo build --offline --features verif-hooks",
        "baseline_off_cmd": "cd /repo && (cargo nextest run --workspace --no-fail-fast --offline || cargo test --workspace --no-fail-fast --offline)",
        "source_commits": [h.split()[0] for h in hooks],
        "add_only": True,
    },
    "engines": [{
        "name": "rotov",
        "path": "/verif/check",
        "serves_properties": [c["property_id"] for c in checks],
        "kind_free_text": "Lean 4 model + theorems (lake project /verif/lean), regenerated from source by the syn-based "
                          "translator /verif/extract, tied to the implementation by the differential harness /verif/harness",
    }],
    "checks": checks,
    "not_applicable": na,
    "notes": "See DESIGN.md. known_findings.json lists genuine defects (open = reported as KNOWN-FINDING; fixed = repaired by a fix: commit).",
}
json.dump(m, open(os.path.join(V, "MANIFEST.json"), "w"), indent=1)
print(f"MANIFEST.json: {len(checks)} checks, {len(na)} not_applicable")
