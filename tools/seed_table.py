#!/usr/bin/env python3
"""Rewrite the table of DESIGN.md §12 (between the SEEDED-TABLE markers) from
seeded/*/meta.json and seeded/*/detection.log (written by tools/run_seed.sh)."""
import glob, json, os, re
V = os.path.dirname(os.path.dirname(os.path.abspath(__file__)))
rows = []
for d in sorted(glob.glob(os.path.join(V, "seeded", "C*-*"))):
    sid = os.path.basename(d)
    try:
        meta = json.load(open(os.path.join(d, "meta.json")))
    except Exception:
        meta = {}
    summ = re.sub(r"\s+", " ", str(meta.get("summary", "")))[:150].replace("|", "/")
    files = ", ".join(meta.get("files_touched", []))[:60]
    dets = []
    try:
        for l in open(os.path.join(d, "detection.log")):
            m = re.match(r"(\S+) (\S+) rc=(\d+) violations=(\d+) broken_obligations=(\d+) ::(.*?)::(.*)", l.rstrip("\n"))
            if not m: continue
            _, chk, rc, nv, nb, first, key = [x.strip() for x in m.groups()]
            if rc == "0": dets.append(f"{chk}: **missed**")
            elif "no-failing-input-found" in first: dets.append(f"{chk}: broken obligation ({nb}), no failing input")
            else:
                k = key.split(" | ")
                dets.append(f"{chk}: failing input ({(k[1] if len(k)>1 else '')[:60]})" + (f" + {nb} broken obligations" if nb != "0" else ""))
    except OSError:
        dets.append("not run yet")
    if meta.get("superseded"):
        # the change no longer breaks the property on the current tree (a later fix: commit
        # neutralised it; its demonstration passes with the patch applied) - silence is right
        dets = [d.replace("**missed**", "silent, correctly: " + str(meta["superseded"])[:160]) for d in dets]
    rows.append(f"| {sid} | {files} | {summ} | {'; '.join(dets).replace('|','/')} |")
table = "| seed | files | change | detected by (quick tier) |\n|---|---|---|---|\n" + "\n".join(rows)
p = os.path.join(V, "DESIGN.md")
s = open(p).read()
a, b = "<!-- SEEDED-TABLE-BEGIN -->", "<!-- SEEDED-TABLE-END -->"
if a in s:
    s = s[: s.index(a) + len(a)] + "\n" + table + "\n" + s[s.index(b):]
    open(p, "w").write(s)
print(table)
