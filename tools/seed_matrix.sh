#!/bin/sh
# tools/seed_matrix.sh [SEED-ID...]: run every kept seeded change (or the given ones)
# against the check of the property it breaks, one at a time on /repo; then
# regenerate the table of DESIGN.md §12.
cd /verif
ids="$@"; [ -n "$ids" ] || ids=$(ls seeded | grep -E '^C[0-9]+-[0-9]+$')
for id in $ids; do
  P=${id%%-*}
  [ -f checks/$(echo $P | tr A-Z a-z).py ] || { echo "$id: no check for $P yet"; continue; }
  ( flock 9; sh tools/run_seed.sh $id $P ) 9>/root/logs/.repo.lock
done
python3 tools/seed_table.py > /dev/null
