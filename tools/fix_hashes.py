#!/usr/bin/env python3
"""Rewrite commit hashes in known_findings.json (and checks/*.json) that name a builder-branch
commit to the hash of the same commit (same subject) on /repo main."""
import json, re, subprocess, sys, glob
def git(*a):
    return subprocess.run(["git", "-C", "/repo"] + list(a), capture_output=True, text=True)
main = {}
for l in git("log", "--format=%H %s", "main").stdout.splitlines():
    h, s = l.split(" ", 1)
    main.setdefault(s, h)
on_main = set(h for h in main.values())
def fix(text):
    def rep(m):
        h = m.group(0)
        r = git("rev-parse", "--verify", "-q", h + "^{commit}")
        if r.returncode != 0:
            return h
        full = r.stdout.strip()
        if full in on_main:
            return h
        subj = git("log", "-1", "--format=%s", full).stdout.strip()
        if subj in main:
            return main[subj][: len(h)]
        return h
    return re.sub(r"\b[0-9a-f]{7,40}\b", rep, text)
files = ["/verif/known_findings.json"] + glob.glob("/verif/checks/c*.json")
for p in files:
    s = open(p).read()
    t = fix(s)
    if t != s:
        open(p, "w").write(t)
        print("rewrote", p)
