#!/bin/sh
# tools/integrate.sh <name>: merge builder branch wt-<name> into /verif main
# (auto-resolving MANIFEST.json and known_findings.json) and cherry-pick its
# repo commits (hooks / fixes) onto /repo main.
n="$1"
cd /verif || exit 2
echo "== /verif: merging wt-$n"
git merge --no-ff --no-commit "wt-$n" >/dev/null 2>&1
for f in $(git diff --name-only --diff-filter=U); do
  case "$f" in
    MANIFEST.json) git checkout --ours -- MANIFEST.json; git add MANIFEST.json;;
    known_findings.json|harness/Cargo.lock)
      if [ "$f" = known_findings.json ]; then
        git show :2:known_findings.json > /tmp/kf_ours.json; git show :3:known_findings.json > /tmp/kf_theirs.json
        python3 - <<'PY'
import json
a=json.load(open('/tmp/kf_ours.json')); b=json.load(open('/tmp/kf_theirs.json'))
ids={f['id'] for f in a['findings']}
for f in b['findings']:
    if f['id'] not in ids: a['findings'].append(f)
json.dump(a,open('/verif/known_findings.json','w'),indent=1,ensure_ascii=False)
PY
        git add known_findings.json
      else
        git checkout --theirs -- "$f"; git add "$f"
      fi;;
    evidence/*.json|seeded/*) git checkout --theirs -- "$f"; git add "$f";;
    *) echo "   UNRESOLVED CONFLICT in $f"; UNRES=1;;
  esac
done
if [ -n "$UNRES" ]; then echo "resolve, then git commit"; exit 1; fi
python3 tools/gen_manifest.py >/dev/null; git add MANIFEST.json
git commit -qm "integrate wt-$n" || true
echo "== /repo: commits on wt-$n not on main"
for c in $(git -C /repo log --reverse --format=%H "main..wt-$n"); do
  git -C /repo log -1 --format='%h %s' "$c"
  if ! git -C /repo cherry-pick "$c" >/dev/null 2>&1; then
    if git -C /repo diff --quiet && git -C /repo diff --cached --quiet; then
      echo "   (empty, skipping)"; git -C /repo cherry-pick --skip >/dev/null 2>&1 || true
    else
      echo "   CONFLICT cherry-picking $c — resolve in /repo, then 'git cherry-pick --continue'"; exit 1
    fi
  fi
done
echo "== done"
