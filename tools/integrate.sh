#!/bin/sh
# tools/integrate.sh <name>: merge builder branch wt-<name> into /verif main and
# cherry-pick its repo commits (hooks / fixes) onto /repo main.
set -e
n="$1"
echo "== /verif: merging wt-$n"
git -C /verif merge --no-ff -m "integrate wt-$n" "wt-$n"
echo "== /repo: commits on wt-$n not on main"
for c in $(git -C /repo log --reverse --format=%H "main..wt-$n"); do
  git -C /repo log -1 --format='%h %s' "$c"
  if ! git -C /repo cherry-pick -x "$c" >/dev/null 2>&1; then
    if git -C /repo diff --cached --quiet && git -C /repo diff --quiet; then
      echo "   (empty after cherry-pick, skipping)"; git -C /repo cherry-pick --skip || true
    else
      echo "   CONFLICT cherry-picking $c — resolve in /repo, then 'git cherry-pick --continue'"; exit 1
    fi
  fi
done
echo "== done"
