#!/bin/sh
# tools/mkwt.sh <name>: scratch worktrees of /verif and /repo for one builder.
set -e
n="$1"
W=/root/scratch/$n
mkdir -p "$W"
git -C /verif worktree add -q -b "wt-$n" "$W/verif" HEAD
git -C /repo worktree add -q -b "wt-$n" "$W/repo" HEAD
echo "$W"
