#!/bin/sh
# tools/confirm_seed.sh <cXX> <i>: confirm a seeded change in its scratch worktree:
# patch applies; full suite passes with it; demo fails with it and passes without.
# On success copies it to /verif/seeded/<CXX>-<i>/ with the confirmation log.
W=/root/scratch/seed/$1
O=$W/out/$2
ID=$(echo "$1" | tr a-z A-Z)-$2
cd "$W" || exit 2
git checkout -q -- . && git clean -fdq src tests macros
LOG=$(mktemp)
{
echo "# confirmation of $ID at $(date -u +%FT%TZ) on $(git rev-parse --short HEAD)"
git apply --check "$O/patch.diff" || { echo "PATCH DOES NOT APPLY"; exit 1; }
git apply "$O/patch.diff"
echo "## full suite with the change"
cargo nextest run --workspace --no-fail-fast --offline 2>&1 | tail -3
FEAT=$(python3 -c "import json; f=json.load(open('$O/meta.json')).get('demo_features',''); print('--features '+f if f else '')" 2>/dev/null)
if [ -f "$O/demo/demo.rs" ]; then cp "$O/demo/demo.rs" tests/demo.rs; DEMO="cargo test --offline $FEAT --test demo"; 
elif [ -f "$O/demo/demo.diff" ]; then git apply "$O/demo/demo.diff"; DEMO="cargo test --offline --lib demo"; fi
echo "## demo with the change ($DEMO)"
$DEMO 2>&1 | grep -E "^test |test result|panicked|error" | head -20
echo "## demo without the change"
git apply -R "$O/patch.diff"
$DEMO 2>&1 | grep -E "^test |test result|panicked|error" | head -20
} > "$LOG" 2>&1
git checkout -q -- . && git clean -fdq src tests macros
cat "$LOG"
mkdir -p "/verif/seeded/$ID"
cp "$O/patch.diff" "$O/meta.json" "/verif/seeded/$ID/" && cp -r "$O/demo" "/verif/seeded/$ID/" && cp "$LOG" "/verif/seeded/$ID/confirm.log"
rm -f "$LOG"
