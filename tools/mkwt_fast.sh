#!/bin/sh
# tools/mkwt_fast.sh <name>: like mkwt.sh, but seeds the builder's worktree with a copy of
# /verif's build output (cargo target dir, lake build dir) so that its first ./setup.sh is
# incremental (minutes) instead of cold (tens of CPU-minutes).
set -e
n="$1"
W=$(sh /verif/tools/mkwt.sh "$n")
rsync -a --ignore-missing-args /verif/target/ "$W/verif/target/" || true
mkdir -p "$W/verif/lean"
rsync -a /verif/lean/.lake/ "$W/verif/lean/.lake/" || true
[ -f /verif/harness/Cargo.lock ] && cp /verif/harness/Cargo.lock "$W/verif/harness/Cargo.lock"
(cd "$W/verif" && ROTO_REPO="$W/repo" ./setup.sh > "$W/setup.log" 2>&1) || true
echo "$W"
