#!/bin/sh
# tools/seed_pipeline.sh <cxx> <i>... : confirm each seeded change of a property in its
# scratch worktree, keep it under seeded/, then run the property's check against it.
p=$1; shift
P=$(echo $p | tr a-z A-Z)
for i in "$@"; do
  [ -f /verif/seeded/$P-$i/confirm.log ] || sh /verif/tools/confirm_seed.sh $p $i > /root/logs/confirm-$p-$i.log 2>&1
  # one at a time on /repo
  ( flock 9; sh /verif/tools/run_seed.sh $P-$i $P ) 9>/root/logs/.repo.lock
done
