#!/bin/sh
# tools/all_quick.sh: every quick check, one after the other, on /repo as it is (serialised
# with seed runs through the repo lock); one line per check in /root/logs/all_quick.log.
cd /verif
: > /root/logs/all_quick.log
for c in C01 C02 C03 C04 C05 C06 C07 C08 C09 C10 C11 C12 C13 C14 C15 C16 C17 C18 C19 C20; do
  ( flock 9
    git -C /repo diff --quiet || { echo "$c: /repo is dirty" >> /root/logs/all_quick.log; exit; }
    s=$(date +%s); ./check $c --tier quick > /root/logs/quick-$c.log 2>&1; rc=$?; e=$(date +%s)
    echo "$c rc=$rc wall=$((e-s))s $(grep -c '^VIOLATION' /root/logs/quick-$c.log) violations $(grep -c '^KNOWN-FINDING' /root/logs/quick-$c.log) known :: $(tail -1 /root/logs/quick-$c.log | cut -c1-120)" >> /root/logs/all_quick.log
  ) 9>/root/logs/.repo.lock
done
echo done >> /root/logs/all_quick.log
