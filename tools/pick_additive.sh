#!/bin/sh
# tools/pick_additive.sh <commit>: inside a conflicted cherry-pick of a purely additive
# (hook) commit in /repo: for every conflicted file keep ours and append the commit's added
# lines at the end of the file; then continue the cherry-pick.
c=$1; cd /repo || exit 2
for f in $(git diff --name-only --diff-filter=U); do
  n=$(git show $c -- $f | grep -c "^-[^-]")
  [ "$n" = 0 ] || { echo "$f: commit is not purely additive there ($n removed lines)"; exit 1; }
  git checkout --ours -- $f
  printf "\n" >> $f
  git show $c -- $f | awk '/^@@/{h=1;next} h && /^\+/{print substr($0,2)}' >> $f
  git add $f; echo "appended to $f"
done
cargo check --offline --features verif-hooks 2>&1 | tail -1
cargo check --offline 2>&1 | tail -1
git -c core.editor=true cherry-pick --continue | tail -1
