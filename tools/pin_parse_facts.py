#!/usr/bin/env python3
"""Write lean/RotoV/Props/C06ParseSource.lean from the CURRENT lean/RotoV/Generated/ParseFacts.lean:
one theorem `source_<def> : Gen.ParseFacts.<def> = <the value the parser model was written against> := rfl`
per generated definition (decision tables and call skeletons of the parser, target `parsefacts`).

Run it only when the parser model (lean/RotoV/Model/Parse*.lean) has been brought in line with a
deliberate change of src/parser/*.rs: the pinned values are what the model was written against; a
difference between them and the regenerated definitions is a broken obligation of ./check C06."""
import os, re, sys
ROOT = os.path.dirname(os.path.dirname(os.path.abspath(__file__)))
gen = open(os.path.join(ROOT, "lean/RotoV/Generated/ParseFacts.lean")).read()
# the model function(s) each Rust function is modelled by (documentation only)
MODEL = {
    "next": "pnext", "next_is": "nextIs", "peek": "ppeek", "peek_many": "peekMany (ParseBase) / isRecord", "peek_is": "peekIs",
    "take": "take", "separated": "separated / sepLoop", "parse": "parse", "run_parser": "parseWith", "tree": "treeLoop",
    "root": "root", "constant": "constant", "function": "function", "test": "test", "import": "importStmt",
    "identifier": "identifier", "add_span": "addNode", "get_span": "getSpan", "merge_spans": "mergeSpans",
    "block": "block / blockLoop / blockKw", "expr": "assignExpr _ false", "expr_no_records": "assignExpr _ true",
    "expr_inner": "assignExpr", "assign_expr": "assignExpr", "compound_assign_expr": "compoundAssign",
    "binop_expr": "binopExpr / binopLoop", "peek_binop": "peekBinop", "negation": "negation", "access": "access / accessLoop",
    "atom": "atom", "can_start_expression": "canStart", "if_else": "ifElse", "while_expr": "whileExpr", "for_expr": "forExpr",
    "match_expr": "matchExpr / matchLoop", "literal": "literal", "ip_address": "ipAddress", "simple_literal": "simpleLiteral (decoding: the oracle `Ctx.lit`)",
    "record": "record / recordItem", "args": "separated … (assignExpr _ false)", "type_expr": "typeExpr / typeLoop",
    "type_expr_atom": "typeAtom", "record_type": "recordType", "record_field": "recordField", "path": "path / pathLoop / closePath",
    "path_expr": "pathExpr / pathExprLoop", "path_list": "pathList / pathListLoop", "path_item": "pathItem", "f_string": "fString / fLoop / fText",
    "filter_map": "filterMap", "params": "params", "type_ident_field": "recordField", "type_parameters": "typeParameters",
    "record_type_assignment": "recordDecl", "enum_declaration": "enumDecl", "enum_variant": "enumVariant",
    "parse_signature": "parseSignatureWith / parseSignature", "signature": "signature",
    "unescape_char": "(oracle `Ctx.lit`)", "unescape_f_string_part": "(oracle `Ctx.lit`)", "unescape_str": "(oracle `Ctx.lit`)",
    "Lexer_next": "lexNext", "Lexer_peek": "lexPeek", "Lexer_peek_many": "peekMany / fillQ / firstToks",
    "Spans_add": "addSpan / addNode", "Spans_get": "getSpan", "Spans_merge": "mergeSpans", "Span_merge": "mergeSp",
}
defs = re.findall(r"^def (\w+) : ([^\n]*?) :=\s*(.*?)(?=\n\n|\nend RotoV)", gen, flags=re.S | re.M)
out = ['''/-
  C06, parser: the decision tables and call skeletons of the parser regenerated from
  src/parser/{mod,expr,filter_map,signature,lexer,meta}.rs on every run (translator target
  `parsefacts`, `Generated/ParseFacts.lean`) are the ones the hand-written parser model
  (`Model/ParseBase.lean`, `Model/Parse.lean`) was written against. One obligation per Rust
  function: a reordered / removed / added call, a changed token, `?` turned into `.unwrap()`,
  a new index or slice, a changed condition changes the generated definition and the `rfl`
  below stops checking. Renaming a local, reformatting, comments and items under
  `#[cfg(feature = "verif-hooks")]` change nothing.

  WRITTEN BY tools/pin_parse_facts.py — regenerate it only together with the model.
-/
import RotoV.Generated.ParseFacts

namespace RotoV.C06ParseSource
open RotoV.Gen
''']
for name, ty, val in defs:
    fn = name[5:] if name.startswith("skel_") else None
    doc = f"`{fn}` — model: {MODEL.get(fn, '?')}" if fn else f"decision table `{name}`"
    out.append(f"/-- {doc} -/\ntheorem source_{name} : ParseFacts.{name} = {val.strip()} := rfl\n")
out.append("end RotoV.C06ParseSource\n")
open(os.path.join(ROOT, "lean/RotoV/Props/C06ParseSource.lean"), "w").write("\n".join(out))
print(len(defs), "definitions pinned")
