#!/usr/bin/env python3
"""Refresh the pinned call skeleton lean/RotoV/Model/TcInferPinned.lean from the
freshly generated lean/RotoV/Generated/C07Arms.lean (translator target `c07arms`).

Props/C07.lean proves Generated/C07Arms = Model/TcInferPinned by rfl, so a changed
arm of the type checker breaks an obligation. Run this script only deliberately:
after the arm's change has been carried over to the model Model/TcInfer.lean.

usage: tools/c07_pin_arms.py [--check]
  (first regenerate:  target/debug/rotov-extract <repo> lean/RotoV/Generated c07arms)
  --check  do not write; exit 1 if the pinned copy differs from the generated one
"""
import os
import re
import sys

VERIF = os.path.dirname(os.path.dirname(os.path.abspath(__file__)))
GEN = os.path.join(VERIF, "lean", "RotoV", "Generated", "C07Arms.lean")
PIN = os.path.join(VERIF, "lean", "RotoV", "Model", "TcInferPinned.lean")
GEN_NS = "RotoV.Gen.C07Arms"
PIN_NS = "RotoV.TcInferPinned"
DEFS = ["exprArms", "stmtArms", "literalArms", "fnSkeletons"]

HEADER = """/- Pinned call skeleton of TypeChecker::expr & co. the model Model/TcInfer.lean was written from;
   Props/C07.lean proves Generated/C07Arms = this by rfl, so a changed arm breaks an obligation.
   Regenerate with (in the verification directory; the last argument-free step rewrites this file):
     (cd extract && CARGO_TARGET_DIR=$PWD/../target cargo build --offline -j2) && ./target/debug/rotov-extract /repo lean/RotoV/Generated c07arms && python3 tools/c07_pin_arms.py
   (/repo = the roto checkout; this copy was made in the worktree /root/scratch/g07/verif with /root/scratch/g07/repo).
   Do not edit by hand. -/
"""


def pinned_text():
    src = open(GEN, encoding="utf-8").read()
    if "GENERATED stub" in src:
        sys.exit(f"{GEN} is a failure stub: extraction of target c07arms failed")
    start = src.find(f"namespace {GEN_NS}\n")
    end_line = f"end {GEN_NS}\n"
    stop = src.find(end_line)
    if start < 0 or stop < 0:
        sys.exit(f"{GEN}: namespace {GEN_NS} not found")
    body = src[start + len(f"namespace {GEN_NS}\n"):stop]
    for d in DEFS:
        if not re.search(rf"^def {d} : List \(String × List String\) := \[$", body, re.M):
            sys.exit(f"{GEN}: def {d} not found")
    return f"{HEADER}namespace {PIN_NS}\n{body}end {PIN_NS}\n"


def main():
    new = pinned_text()
    old = open(PIN, encoding="utf-8").read() if os.path.exists(PIN) else None
    if "--check" in sys.argv[1:]:
        if old != new:
            print(f"{PIN} differs from the generated skeleton")
            sys.exit(1)
        print("pinned skeleton is up to date")
        return
    if old == new:
        print(f"{PIN} unchanged")
        return
    with open(PIN, "w", encoding="utf-8") as f:
        f.write(new)
    print(f"wrote {PIN}")


if __name__ == "__main__":
    main()
