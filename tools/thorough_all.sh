#!/bin/sh
# tools/thorough_all.sh [Cxx...]: run the thorough tier of the given (default: all claimed)
# checks one after the other; for `vp run --with-repo` (uses $VP_RUN_REPO when set).
cd "$(dirname "$0")/.."
[ -n "$VP_RUN_REPO" ] && export ROTO_REPO="$VP_RUN_REPO"
./setup.sh > setup.log 2>&1
ids="$@"; [ -n "$ids" ] || ids=$(python3 -c "import json; print(' '.join(c['property_id'] for c in json.load(open('MANIFEST.json'))['checks']))")
for c in $ids; do
  s=$(date +%s); ./check $c --tier thorough > thorough-$c.log 2>&1; rc=$?; e=$(date +%s)
  echo "$c rc=$rc $((e-s))s $(grep -c '^VIOLATION' thorough-$c.log) violations $(grep -c '^KNOWN-FINDING' thorough-$c.log) known :: $(tail -1 thorough-$c.log | cut -c1-160)"
done
